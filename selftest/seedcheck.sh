#!/bin/bash
# Confirms a sub-agent's seeded change and runs checks against it.
# usage: selftest/seedcheck.sh <worktree> <ID> [more IDs...]
set -u
HERE="$(cd "$(dirname "$0")/.." && pwd)"
WT="$1"; shift
export GOFLAGS=-mod=mod GOPROXY=off GOSUMDB=off GOTOOLCHAIN=local
T="$(mktemp -d /tmp/verif-seedchk-XXXXXX)"; trap 'rm -rf "$T"' EXIT
mkdir "$T/clean" && git -C "$WT" archive HEAD | tar -x -C "$T/clean"
( cd "$WT" && git add -N . ":!SEED" 2>/dev/null; git diff -- . ":!SEED" > SEED/patch.diff )  # -N: new files of the change show up in the diff
echo "patch: $(grep -c '^[-+][^-+]' "$WT/SEED/patch.diff") changed lines in $(grep -c '^diff' "$WT/SEED/patch.diff") files"
( cd "$WT/SEED" && timeout 600 bash ./demo.sh "$T/clean" > "$T/demo_clean.log" 2>&1 ); echo "demo on clean tree: exit $?"
( cd "$WT/SEED" && timeout 600 bash ./demo.sh "$WT" > "$T/demo_mod.log" 2>&1 ); echo "demo on modified tree: exit $?"
( cd "$WT" && go build ./... && go test -vet=off -count=1 ./... 2>&1 | grep -c '^ok' ) | sed 's/^/build+tests on modified tree: ok packages = /'
for ID in "$@"; do
  mkdir -p "$T/out"
  VERIF_REPO="$WT" VERIF_OUT="$T/out" "$HERE/check.sh" "$ID" quick > "$T/check-$ID.log" 2>&1; e=$?
  echo "check $ID quick: exit=$e $(grep -m1 -A1 '^VIOLATION' "$T/check-$ID.log" | tail -1 | cut -c1-220)"
done
