#!/usr/bin/env python3
"""Regenerates the table of seeded changes in DESIGN.md (between the SEEDTABLE markers) from seeded/*/meta.json."""
import json, glob, os, re
root = os.path.dirname(os.path.dirname(os.path.abspath(__file__)))
first = json.load(open(os.path.join(root, 'selftest', 'first_run.json')))
rows = []
for d in sorted(glob.glob(os.path.join(root, 'seeded', '*'))):
    m = json.load(open(os.path.join(d, 'meta.json')))
    n = os.path.basename(d)
    esc = lambda s: s.replace('|', '\\|')
    rows.append('| %s | %s | %s | %s |' % (n, esc(m['needs_to_manifest']), first.get(n, 'caught'), esc(m['caught_by'])))
table = '| seed | what it needs in order to manifest | first run (quick check of the targeted property) | caught by (and what had to change) |\n|---|---|---|---|\n' + '\n'.join(rows)
p = os.path.join(root, 'DESIGN.md')
s = open(p).read()
s = re.sub(r'<!-- SEEDTABLE BEGIN -->.*<!-- SEEDTABLE END -->', '<!-- SEEDTABLE BEGIN -->\n' + table + '\n<!-- SEEDTABLE END -->', s, flags=re.S)
open(p, 'w').write(s)
print(len(rows), 'seeds;', sum(1 for r in rows if '| caught |' in r), 'caught at first run')
