#!/bin/bash
# usage: selftest/keepseed.sh <worktree> <name> <property> "<needs>" "<caught by>"
WT="$1"; NAME="$2"; PROP="$3"; NEEDS="$4"; CAUGHT="$5"
HERE="$(cd "$(dirname "$0")/.." && pwd)"
D="$HERE/seeded/$NAME"; rm -rf "$D"; mkdir -p "$D"
( cd "$WT" && git add -N . ":!SEED" 2>/dev/null; git diff -- . ":!SEED" > "$D/patch.diff" )
cp -r "$WT/SEED/." "$D/"; ( cd "$WT" && git diff -- . ":!SEED" > "$D/patch.diff" )
python3 - "$D" "$PROP" "$NEEDS" "$CAUGHT" <<'PY'
import json,sys
d,prop,needs,caught=sys.argv[1:5]
json.dump({"property":prop,"breaks":prop,"needs_to_manifest":needs,
 "confirmed":"selftest/seedcheck.sh: demo.sh exits 0 on a clean git-archive copy and non-zero on the modified worktree; go build ./... and the 34 baseline tests pass on the modified tree",
 "checks_run":"VERIF_REPO=<worktree> ./check.sh <ID> quick", "caught_by":caught,
 "origin":"written by a fresh sub-agent that saw only the property text and its own worktree"}, open(d+"/meta.json","w"), indent=1)
PY
echo kept $NAME
