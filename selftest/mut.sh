#!/bin/bash
# Development-time self-validation: apply a patch to a scratch copy of /repo and run one check against it.
# usage: selftest/mut.sh <patch.diff> <ID> [tier]      (evidence/replays go to a scratch dir, not to /verif)
set -u
HERE="$(cd "$(dirname "$0")/.." && pwd)"
P="$(readlink -f "$1")"; ID="$2"; TIER="${3:-quick}"
M="$(mktemp -d /tmp/verif-mut-XXXXXX)"
trap 'rm -rf "$M"' EXIT
rsync -a --exclude .git /repo/ "$M/repo/"
( cd "$M/repo" && patch -p1 -s < "$P" ) || { echo "patch failed"; exit 3; }
export GOFLAGS=-mod=mod GOPROXY=off GOSUMDB=off GOTOOLCHAIN=local
( cd "$M/repo" && go build ./... && go test -vet=off -count=1 ./... > "$M/test.log" 2>&1 ) || { echo "MUTANT does not build or fails the baseline tests"; tail -5 "$M/test.log"; exit 4; }
mkdir -p "$M/out"
VERIF_REPO="$M/repo" VERIF_OUT="$M/out" "$HERE/check.sh" "$ID" "$TIER" > "$M/log" 2>&1
echo "exit=$?"
head -${MUT_LINES:-12} "$M/log"
