#!/bin/bash
# Like seedcheck.sh, but the checks run against the CURRENT /repo plus the seed's patch
# (for worktrees that were created before a later fix: commit in /repo).
# usage: selftest/seedcheck2.sh <worktree> <ID> [more IDs...]
set -u
HERE="$(cd "$(dirname "$0")/.." && pwd)"
WT="$1"; shift
export GOFLAGS=-mod=mod GOPROXY=off GOSUMDB=off GOTOOLCHAIN=local
T="$(mktemp -d /tmp/verif-seedchk-XXXXXX)"; trap 'rm -rf "$T"' EXIT
mkdir "$T/clean" && git -C "$WT" archive HEAD | tar -x -C "$T/clean"
( cd "$WT" && git diff > SEED/patch.diff )
echo "patch: $(grep -c '^[-+][^-+]' "$WT/SEED/patch.diff") changed lines in $(grep -c '^diff' "$WT/SEED/patch.diff") files"
( cd "$WT/SEED" && timeout 600 bash ./demo.sh "$T/clean" > "$T/demo_clean.log" 2>&1 ); echo "demo on clean tree: exit $?"
( cd "$WT/SEED" && timeout 600 bash ./demo.sh "$WT" > "$T/demo_mod.log" 2>&1 ); echo "demo on modified tree: exit $?"
rsync -a --exclude .git --exclude SEED /repo/ "$T/repo/"
( cd "$T/repo" && patch -p1 -s < "$WT/SEED/patch.diff" ) || { echo "patch does not apply to current /repo"; exit 3; }
( cd "$T/repo" && go build ./... && go test -vet=off -count=1 ./... 2>&1 | grep -c '^ok' ) | sed 's/^/build+tests on current repo + patch: ok packages = /'
for ID in "$@"; do
  mkdir -p "$T/out"
  VERIF_REPO="$T/repo" VERIF_OUT="$T/out" "$HERE/check.sh" "$ID" quick > "$T/check-$ID.log" 2>&1; e=$?
  echo "check $ID quick: exit=$e $(grep -m1 -A1 '^VIOLATION' "$T/check-$ID.log" | tail -1 | cut -c1-220)"
done
