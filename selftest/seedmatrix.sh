#!/bin/bash
# Re-runs every kept seeded change against the quick check that its record names first in "caught_by"
# (the targeted property itself when the record names none, e.g. the documented needles).
# usage: selftest/seedmatrix.sh [glob]
cd "$(dirname "$0")/.."
ls -d seeded/${1:-*} | xargs -P 4 -I{} bash -c '
  d="{}"; n=$(basename "$d"); id="${n%%-*}"
  by=$(python3 -c "import json,re,sys; cb=json.load(open(sys.argv[1]+\"/meta.json\")).get(\"caught_by\",\"\"); m=None if cb.startswith(\"NOT\") else re.search(r\"C\d\d\", cb); print(m.group(0) if m else \"\")" "$d")
  [ -n "$by" ] && id="$by"
  out=$(selftest/mut.sh "$d/patch.diff" "$id" quick 2>&1); e=$(echo "$out" | grep -m1 "^exit=" | cut -d= -f2)
  case "$e" in 1) r=CAUGHT;; 0) r=MISSED;; *) r="OTHER($e)";; esac
  echo "$r $n by $id :: $(echo "$out" | grep -m1 -A1 "^VIOLATION" | tail -1 | cut -c1-140)"
'
