#!/bin/bash
# Re-runs every kept seeded change against the quick check of its property (and C15 for C08-b).
# usage: selftest/seedmatrix.sh [glob]
cd "$(dirname "$0")/.."
ls -d seeded/${1:-*} | xargs -P 4 -I{} bash -c '
  d="{}"; n=$(basename "$d"); id="${n%%-*}"
  [ "$n" = C08-b ] && id=C15
  out=$(selftest/mut.sh "$d/patch.diff" "$id" quick 2>&1); e=$(echo "$out" | grep -m1 "^exit=" | cut -d= -f2)
  case "$e" in 1) r=CAUGHT;; 0) r=MISSED;; *) r="OTHER($e)";; esac
  echo "$r $n by $id :: $(echo "$out" | grep -m1 -A1 "^VIOLATION" | tail -1 | cut -c1-140)"
'
