#!/bin/bash
# Runs every mutants/<cNN_name>.diff against the check of property CNN (quick tier) and prints one line per mutant.
# usage: selftest/matrix.sh [glob]      results: CAUGHT (exit 1 + VIOLATION) / MISSED (exit 0) / other
cd "$(dirname "$0")/.."
ls mutants/${1:-*}.diff | xargs -P 4 -I{} bash -c '
  m="{}"; b=$(basename "$m" .diff); id="C${b:1:2}"
  out=$(selftest/mut.sh "$m" "$id" quick 2>&1); e=$(echo "$out" | grep -m1 "^exit=" | cut -d= -f2)
  v=$(echo "$out" | grep -c "^VIOLATION")
  case "$e" in 1) r=CAUGHT;; 0) r=MISSED;; *) r="OTHER($e)";; esac
  if echo "$out" | grep -q "MUTANT does not build"; then r=INVALID; fi
  echo "$r $b $id violations=$v :: $(echo "$out" | grep -m1 -A1 "^VIOLATION" | tail -1 | cut -c1-160)"
'
