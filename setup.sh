#!/bin/bash
# Warms the Go build cache for the harness (offline; nothing is kept that depends on /repo's working tree).
set -u
HERE="$(cd "$(dirname "$0")" && pwd)"
export GOFLAGS=-mod=mod GOPROXY=off GOSUMDB=off GOTOOLCHAIN=local
S="$(mktemp -d /tmp/verif-setup-XXXXXX)"; trap 'rm -rf "$S"' EXIT
cp "$HERE/harness/go.mod" "$S/go.mod"; cp /repo/go.sum "$S/go.sum"
( cd "$HERE/harness" && go build -modfile="$S/go.mod" -tags verif -o "$S/vcheck" ./cmd/vcheck ) || exit 1
( cd /repo && go build -o "$S/yaccgo" ./yaccgo ) || exit 1
echo setup ok
