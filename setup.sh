#!/bin/bash
# Warms the Go build cache for the harness (offline; nothing is kept that depends on /repo's working tree).
set -u
HERE="$(cd "$(dirname "$0")" && pwd)"
export GOFLAGS=-mod=mod GOPROXY=off GOSUMDB=off GOTOOLCHAIN=local
S="$(mktemp -d /tmp/verif-setup-XXXXXX)"; trap 'rm -rf "$S"' EXIT
cp "$HERE/harness/go.mod" "$S/go.mod"; cp /repo/go.sum "$S/go.sum"
( cd "$HERE/harness" && go build -modfile="$S/go.mod" -tags verif -o "$S/vcheck" ./cmd/vcheck ) || exit 1
( cd /repo && go build -o "$S/yaccgo" ./yaccgo ) || exit 1
# base build cache for the batches of generated parsers (harness/pipe/gocache.go makes it on first use otherwise)
if [ ! -f "$HERE/.cache/gobase/ok" ]; then
  mkdir -p "$S/stub" "$S/gobase" "$HERE/.cache"
  printf 'module verifstub\n\ngo 1.18\n' > "$S/stub/go.mod"
  cat > "$S/stub/main.go" <<'EOT'
package main

import (
	"encoding/json"
	"fmt"
	"os"
	"runtime"
	"strconv"
	"strings"
	"sync"
	"sync/atomic"
)

var _ = json.Marshal
var _ = strconv.Itoa
var _ = strings.Join
var _ = runtime.Gosched
var _ sync.Mutex
var _ = atomic.AddInt64

func main() { fmt.Println(os.Args) }
EOT
  ( cd "$S/stub" && GOCACHE="$S/gobase" go build -o "$S/stub/stub" . && GOCACHE="$S/gobase" go build -race -o "$S/stub/stub" . ) \
    && echo ok > "$S/gobase/ok" && mv "$S/gobase" "$HERE/.cache/gobase" 2>/dev/null
fi
echo setup ok
