#!/bin/bash
# Entry point of every check: ./check.sh <ID> <quick|thorough>   |   ./check.sh replay <ID> <replay dir>
# Rebuilds the harness and the yaccgo CLI from the current working tree of $VERIF_REPO (default /repo),
# runs the campaign of one property, writes /verif/evidence/<ID>.json and removes its scratch directory.
set -u
HERE="$(cd "$(dirname "$0")" && pwd)"
export VERIF_ROOT="$HERE"
export VERIF_REPO="${VERIF_REPO:-/repo}"
export GOFLAGS=-mod=mod GOPROXY=off GOSUMDB=off GOTOOLCHAIN=local
export VERIF_SEED="${VERIF_SEED:-1}"
MODE=run
if [ "${1:-}" = replay ]; then MODE=replay; shift; fi
ID="${1:?property id}"; TIER="${2:-${VERIF_TIER:-quick}}"
S="$(mktemp -d "${TMPDIR:-/tmp}/verif-$ID-XXXXXX")"
trap 'rm -rf "$S"' EXIT
export VERIF_SCRATCH="$S"
# node >= 22 for the TypeScript legs
for d in $(echo "$PATH" | tr ':' ' ') /root/.nvm/versions/node/*/bin; do
  if [ -x "$d/node" ]; then
    v=$("$d/node" -p 'process.versions.node.split(".")[0]' 2>/dev/null || echo 0)
    if [ "${v:-0}" -ge 22 ]; then export VERIF_NODE="$d/node"; break; fi
  fi
done
# module file that points the harness at the repository under test
sed "s#=> /repo#=> $VERIF_REPO#" "$HERE/harness/go.mod" > "$S/go.mod"
cp "$VERIF_REPO/go.sum" "$S/go.sum"
COVER=()
if [ "$TIER" = thorough ] && [ "${VERIF_NOCOVER:-0}" != 1 ]; then
  # thorough tier: statement coverage of the repository's packages is recorded as evidence of reach (never a verdict)
  PK="github.com/acekingke/yaccgo"
  COVER=(-cover "-coverpkg=$PK/Parser,$PK/Grammar,$PK/LALR,$PK/LR,$PK/Items,$PK/Builder,$PK/Utils,$PK/Graph,$PK/Symbol,$PK/Rules")
  mkdir -p "$S/cov"; export GOCOVERDIR="$S/cov" VERIF_COVDIR="$S/cov"
fi
( cd "$HERE/harness" && go build -modfile="$S/go.mod" -tags verif "${COVER[@]}" -o "$S/vcheck" ./cmd/vcheck ) > "$S/build.log" 2>&1
if [ $? -ne 0 ]; then
  # the harness does not build against this tree: the repository (or a hook) changed an interface the monitors rely on
  echo "INCONCLUSIVE property=$ID: harness does not build against $VERIF_REPO"; head -30 "$S/build.log"; exit 2
fi
if [ "$ID" = C13 ] && [ "$TIER" = thorough ]; then
  # race-detector leg: the lexer goroutine and the parser share the lexer struct
  ( cd "$HERE/harness" && go build -modfile="$S/go.mod" -tags verif -race -o "$S/vcheck-race" ./cmd/vcheck ) >> "$S/build.log" 2>&1 && export VERIF_RACE_BIN="$S/vcheck-race"
fi
( cd "$VERIF_REPO" && go build "${COVER[@]}" -o "$S/yaccgo" ./yaccgo ) > "$S/build2.log" 2>&1 || { echo "INCONCLUSIVE property=$ID: yaccgo CLI does not build"; head -30 "$S/build2.log"; exit 2; }
export VERIF_YACCGO="$S/yaccgo"
if [ $MODE = replay ]; then
  # ./check.sh replay <ID> <replay dir>   (directory name: <tier>-seed<N>-case<M>)
  B="$(basename "${2:?replay path}")"
  RT="${B%%-seed*}"; RS="${B#*-seed}"; RS="${RS%%-case*}"; RI="${B##*-case}"
  "$S/vcheck" replay "$ID" "$RT" "$RS" "$RI"
else
  "$S/vcheck" run "$ID" "$TIER"
fi
