// Package ref holds the reference models (oracles). It is written from the
// textbook definitions and shares no code with acekingke/yaccgo.
package ref

import (
	"fmt"
	"sort"
	"strings"
)

// Assoc values.
const (
	AssocNone  = 0 // no precedence declared
	AssocLeft  = 1
	AssocRight = 2
	AssocNon   = 3
)

// Rule is one production.
type Rule struct {
	Lhs int
	Rhs []int
}

// Grammar is an augmented context free grammar over symbol ids 0..NSym-1.
// Rules[0] is Aug -> Start. EOF is the end marker (a terminal).
type Grammar struct {
	NSym  int
	IsNT  []bool
	Names []string
	Rules []Rule
	EOF   int
	Aug   int

	// precedence: 0 = none, larger binds tighter
	TokPrec   []int
	TokAssoc  []int
	RulePrec  []int // per rule: level
	RuleAssoc []int // per rule: assoc of its precedence symbol

	nullable []bool
	first    []Bits
	byLhs    [][]int
}

// Bits is a small bitset.
type Bits []uint64

func NewBits(n int) Bits { return make(Bits, (n+63)/64) }
func (b Bits) Set(i int) { b[i/64] |= 1 << uint(i%64) }
func (b Bits) Has(i int) bool {
	return b[i/64]&(1<<uint(i%64)) != 0
}
func (b Bits) Or(o Bits) bool {
	ch := false
	for i := range b {
		n := b[i] | o[i]
		if n != b[i] {
			ch = true
			b[i] = n
		}
	}
	return ch
}
func (b Bits) Clone() Bits { c := make(Bits, len(b)); copy(c, b); return c }
func (b Bits) Equal(o Bits) bool {
	for i := range b {
		if b[i] != o[i] {
			return false
		}
	}
	return true
}
func (b Bits) List() []int {
	r := []int{}
	for i := 0; i < len(b)*64; i++ {
		if b.Has(i) {
			r = append(r, i)
		}
	}
	return r
}
func (b Bits) Key() string {
	var sb strings.Builder
	for _, w := range b {
		fmt.Fprintf(&sb, "%x.", w)
	}
	return sb.String()
}

// Finish computes the derived tables. Must be called after the fields are set.
func (g *Grammar) Finish() {
	g.byLhs = make([][]int, g.NSym)
	for i, r := range g.Rules {
		g.byLhs[r.Lhs] = append(g.byLhs[r.Lhs], i)
	}
	g.nullable = make([]bool, g.NSym)
	for ch := true; ch; {
		ch = false
		for _, r := range g.Rules {
			if g.nullable[r.Lhs] {
				continue
			}
			all := true
			for _, s := range r.Rhs {
				if !g.nullable[s] {
					all = false
					break
				}
			}
			if all {
				g.nullable[r.Lhs] = true
				ch = true
			}
		}
	}
	g.first = make([]Bits, g.NSym)
	for s := 0; s < g.NSym; s++ {
		g.first[s] = NewBits(g.NSym)
		if !g.IsNT[s] {
			g.first[s].Set(s)
		}
	}
	for ch := true; ch; {
		ch = false
		for _, r := range g.Rules {
			for _, s := range r.Rhs {
				if g.first[r.Lhs].Or(g.first[s]) {
					ch = true
				}
				if !g.nullable[s] {
					break
				}
			}
		}
	}
}

func (g *Grammar) Nullable(s int) bool { return g.nullable[s] }
func (g *Grammar) First(s int) Bits    { return g.first[s] }
func (g *Grammar) RulesOf(nt int) []int {
	return g.byLhs[nt]
}

// FirstOfSeq returns FIRST(seq . la).
func (g *Grammar) FirstOfSeq(seq []int, la Bits) Bits {
	res := NewBits(g.NSym)
	for _, s := range seq {
		res.Or(g.first[s])
		if !g.nullable[s] {
			return res
		}
	}
	if la != nil {
		res.Or(la)
	}
	return res
}

// Productive returns, per symbol, whether it derives some terminal string.
func (g *Grammar) Productive() []bool {
	p := make([]bool, g.NSym)
	for s := 0; s < g.NSym; s++ {
		if !g.IsNT[s] {
			p[s] = true
		}
	}
	for ch := true; ch; {
		ch = false
		for _, r := range g.Rules {
			if p[r.Lhs] {
				continue
			}
			all := true
			for _, s := range r.Rhs {
				if !p[s] {
					all = false
					break
				}
			}
			if all {
				p[r.Lhs] = true
				ch = true
			}
		}
	}
	return p
}

// Reachable returns, per symbol, whether it is reachable from Aug.
func (g *Grammar) Reachable() []bool {
	re := make([]bool, g.NSym)
	re[g.Aug] = true
	for ch := true; ch; {
		ch = false
		for _, r := range g.Rules {
			if !re[r.Lhs] {
				continue
			}
			for _, s := range r.Rhs {
				if !re[s] {
					re[s] = true
					ch = true
				}
			}
		}
	}
	return re
}

// RuleString renders rule i.
func (g *Grammar) RuleString(i int) string {
	r := g.Rules[i]
	parts := []string{}
	for _, s := range r.Rhs {
		parts = append(parts, g.Names[s])
	}
	return g.Names[r.Lhs] + " -> " + strings.Join(parts, " ")
}

// Terminals returns the terminal ids except EOF, ascending.
func (g *Grammar) Terminals() []int {
	r := []int{}
	for s := 0; s < g.NSym; s++ {
		if !g.IsNT[s] && s != g.EOF {
			r = append(r, s)
		}
	}
	return r
}

// ---------------------------------------------------------------- LR(0)

// Item encodes (rule, dot).
func Item(r, d int) int   { return r<<8 | d }
func ItemRule(it int) int { return it >> 8 }
func ItemDot(it int) int  { return it & 0xff }

// State0 is an LR(0) state: the full item set (closure), sorted.
type State0 struct {
	Items []int
	Trans map[int]int // symbol -> state
}

// LR0 is the canonical LR(0) collection.
type LR0 struct {
	G      *Grammar
	States []*State0
	Index  map[string]int
}

func itemsKey(items []int) string {
	var sb strings.Builder
	for _, it := range items {
		fmt.Fprintf(&sb, "%x,", it)
	}
	return sb.String()
}

// ItemsKey is the canonical key of a sorted item list.
func ItemsKey(items []int) string { return itemsKey(items) }

func (g *Grammar) closure0(kernel []int) []int {
	set := map[int]bool{}
	work := []int{}
	for _, it := range kernel {
		if !set[it] {
			set[it] = true
			work = append(work, it)
		}
	}
	for len(work) > 0 {
		it := work[len(work)-1]
		work = work[:len(work)-1]
		r := g.Rules[ItemRule(it)]
		d := ItemDot(it)
		if d < len(r.Rhs) && g.IsNT[r.Rhs[d]] {
			for _, ri := range g.byLhs[r.Rhs[d]] {
				n := Item(ri, 0)
				if !set[n] {
					set[n] = true
					work = append(work, n)
				}
			}
		}
	}
	res := make([]int, 0, len(set))
	for it := range set {
		res = append(res, it)
	}
	sort.Ints(res)
	return res
}

// BuildLR0 builds the canonical collection (limit on states; nil if exceeded).
func BuildLR0(g *Grammar, limit int) *LR0 {
	lr := &LR0{G: g, Index: map[string]int{}}
	add := func(items []int) int {
		k := itemsKey(items)
		if i, ok := lr.Index[k]; ok {
			return i
		}
		i := len(lr.States)
		lr.Index[k] = i
		lr.States = append(lr.States, &State0{Items: items, Trans: map[int]int{}})
		return i
	}
	add(g.closure0([]int{Item(0, 0)}))
	for i := 0; i < len(lr.States); i++ {
		if len(lr.States) > limit {
			return nil
		}
		st := lr.States[i]
		bySym := map[int][]int{}
		for _, it := range st.Items {
			r := g.Rules[ItemRule(it)]
			d := ItemDot(it)
			if d < len(r.Rhs) {
				bySym[r.Rhs[d]] = append(bySym[r.Rhs[d]], Item(ItemRule(it), d+1))
			}
		}
		syms := make([]int, 0, len(bySym))
		for s := range bySym {
			syms = append(syms, s)
		}
		sort.Ints(syms)
		for _, s := range syms {
			st.Trans[s] = add(g.closure0(bySym[s]))
		}
	}
	return lr
}

// ---------------------------------------------------------------- LALR(1) by definition

// LALR holds, per LR(0) state and complete item, the LALR(1) lookahead set,
// computed as the union of canonical LR(1) lookaheads over same-core states.
type LALR struct {
	LR0 *LR0
	// LA[state][rule] for complete items
	LA        []map[int]Bits
	LR1States int
}

type lr1state struct {
	items []int  // sorted LR(0) items
	la    []Bits // parallel
	trans map[int]int
}

func (g *Grammar) closure1(items map[int]Bits) {
	work := make([]int, 0, len(items))
	for it := range items {
		work = append(work, it)
	}
	inWork := map[int]bool{}
	for _, it := range work {
		inWork[it] = true
	}
	for len(work) > 0 {
		it := work[len(work)-1]
		work = work[:len(work)-1]
		inWork[it] = false
		r := g.Rules[ItemRule(it)]
		d := ItemDot(it)
		if d >= len(r.Rhs) || !g.IsNT[r.Rhs[d]] {
			continue
		}
		f := g.FirstOfSeq(r.Rhs[d+1:], items[it])
		for _, ri := range g.byLhs[r.Rhs[d]] {
			n := Item(ri, 0)
			cur, ok := items[n]
			if !ok {
				items[n] = f.Clone()
				if !inWork[n] {
					inWork[n] = true
					work = append(work, n)
				}
			} else if cur.Or(f) {
				if !inWork[n] {
					inWork[n] = true
					work = append(work, n)
				}
			}
		}
	}
}

func lr1key(items []int, la []Bits) string {
	var sb strings.Builder
	for i, it := range items {
		fmt.Fprintf(&sb, "%x:%s;", it, la[i].Key())
	}
	return sb.String()
}

// BuildLALR computes LALR(1) lookaheads through the canonical LR(1)
// collection. Returns nil if more than limit LR(1) states are needed.
func BuildLALR(lr0 *LR0, limit int) *LALR {
	g := lr0.G
	var states []*lr1state
	index := map[string]int{}
	add := func(m map[int]Bits) int {
		g.closure1(m)
		items := make([]int, 0, len(m))
		for it := range m {
			items = append(items, it)
		}
		sort.Ints(items)
		la := make([]Bits, len(items))
		for i, it := range items {
			la[i] = m[it]
		}
		k := lr1key(items, la)
		if i, ok := index[k]; ok {
			return i
		}
		i := len(states)
		index[k] = i
		states = append(states, &lr1state{items: items, la: la, trans: map[int]int{}})
		return i
	}
	start := NewBits(g.NSym)
	start.Set(g.EOF)
	add(map[int]Bits{Item(0, 0): start})
	for i := 0; i < len(states); i++ {
		if len(states) > limit {
			return nil
		}
		st := states[i]
		bySym := map[int]map[int]Bits{}
		for j, it := range st.items {
			r := g.Rules[ItemRule(it)]
			d := ItemDot(it)
			if d < len(r.Rhs) {
				s := r.Rhs[d]
				if bySym[s] == nil {
					bySym[s] = map[int]Bits{}
				}
				bySym[s][Item(ItemRule(it), d+1)] = st.la[j].Clone()
			}
		}
		syms := make([]int, 0, len(bySym))
		for s := range bySym {
			syms = append(syms, s)
		}
		sort.Ints(syms)
		for _, s := range syms {
			st.trans[s] = add(bySym[s])
		}
	}
	res := &LALR{LR0: lr0, LA: make([]map[int]Bits, len(lr0.States)), LR1States: len(states)}
	for i := range res.LA {
		res.LA[i] = map[int]Bits{}
	}
	for _, st := range states {
		core, ok := lr0.Index[itemsKey(st.items)]
		if !ok {
			panic("ref: LR(1) core not among LR(0) states")
		}
		for j, it := range st.items {
			r := g.Rules[ItemRule(it)]
			if ItemDot(it) == len(r.Rhs) {
				ri := ItemRule(it)
				if res.LA[core][ri] == nil {
					res.LA[core][ri] = NewBits(g.NSym)
				}
				res.LA[core][ri].Or(st.la[j])
			}
		}
	}
	return res
}
