package ref

import "sort"

// Action kinds.
const (
	ActErr    = 0
	ActShift  = 1
	ActReduce = 2
	ActAccept = 3
)

type Action struct {
	Kind int
	Arg  int // shift: target LR(0) state; reduce: rule
}

// Cell describes the candidates of one (state, terminal) cell.
type Cell struct {
	State, Sym int
	Shift      int   // -1 or target state
	Reduces    []int // ascending rule numbers
	// Resolution
	Act        Action
	NCand      int
	Unresolved bool // yacc must report it (resolved by the default rules)
	DontCare   bool // outside what the properties define (>=3 candidates, r/r with both precedences)
	ByPrec     bool // resolved by precedence/associativity
}

// Table is the reference parse table.
type Table struct {
	G     *Grammar
	LR0   *LR0
	LALR  *LALR
	Act   [][]Action // [state][symbol] (terminals incl. EOF)
	Goto  [][]int    // [state][symbol] (nonterminals), -1 none
	Cells []*Cell    // cells with >= 2 candidates
	// summary
	HasUnresolved bool
	HasDontCare   bool
}

// BuildTable resolves conflicts the way yacc documents it.
func BuildTable(la *LALR) *Table {
	lr0 := la.LR0
	g := lr0.G
	t := &Table{G: g, LR0: lr0, LALR: la}
	for si, st := range lr0.States {
		act := make([]Action, g.NSym)
		gt := make([]int, g.NSym)
		for i := range gt {
			gt[i] = -1
		}
		for s, to := range st.Trans {
			if g.IsNT[s] {
				gt[s] = to
			}
		}
		for s := 0; s < g.NSym; s++ {
			if g.IsNT[s] {
				continue
			}
			c := &Cell{State: si, Sym: s, Shift: -1}
			if to, ok := st.Trans[s]; ok {
				c.Shift = to
			}
			for r, bits := range la.LA[si] {
				if bits.Has(s) {
					c.Reduces = append(c.Reduces, r)
				}
			}
			sort.Ints(c.Reduces)
			c.NCand = len(c.Reduces)
			if c.Shift >= 0 {
				c.NCand++
			}
			resolveCell(g, c)
			act[s] = c.Act
			if c.NCand >= 2 {
				t.Cells = append(t.Cells, c)
				if c.Unresolved {
					t.HasUnresolved = true
				}
				if c.DontCare {
					t.HasDontCare = true
				}
			}
		}
		t.Act = append(t.Act, act)
		t.Goto = append(t.Goto, gt)
	}
	return t
}

func redAction(r int) Action {
	if r == 0 {
		return Action{Kind: ActAccept}
	}
	return Action{Kind: ActReduce, Arg: r}
}

func resolveCell(g *Grammar, c *Cell) {
	switch {
	case c.NCand == 0:
		c.Act = Action{Kind: ActErr}
	case c.NCand == 1:
		if c.Shift >= 0 {
			c.Act = Action{Kind: ActShift, Arg: c.Shift}
		} else {
			c.Act = redAction(c.Reduces[0])
		}
	case c.NCand == 2 && c.Shift >= 0:
		r := c.Reduces[0]
		rp, tp := g.RulePrec[r], g.TokPrec[c.Sym]
		if rp == 0 || tp == 0 {
			c.Unresolved = true
			c.Act = Action{Kind: ActShift, Arg: c.Shift}
			return
		}
		c.ByPrec = true
		switch {
		case rp > tp:
			c.Act = redAction(r)
		case rp < tp:
			c.Act = Action{Kind: ActShift, Arg: c.Shift}
		default:
			switch g.TokAssoc[c.Sym] {
			case AssocLeft:
				c.Act = redAction(r)
			case AssocRight:
				c.Act = Action{Kind: ActShift, Arg: c.Shift}
			default:
				c.Act = Action{Kind: ActErr}
			}
		}
	case c.NCand == 2:
		// reduce/reduce: first rule in the file
		c.Act = redAction(c.Reduces[0])
		if g.RulePrec[c.Reduces[0]] != 0 && g.RulePrec[c.Reduces[1]] != 0 {
			c.DontCare = true
		} else {
			c.Unresolved = true
		}
	default:
		c.DontCare = true
		// some deterministic choice so that simulations can continue; never judged
		if c.Shift >= 0 {
			c.Act = Action{Kind: ActShift, Arg: c.Shift}
		} else {
			c.Act = redAction(c.Reduces[0])
		}
	}
}

// SimResult is the outcome of an LR simulation.
type SimResult struct {
	Accept    bool
	StepLimit bool
	Reds      []int // rules reduced, in order
	Fetched   int   // tokens requested from the lexer (incl. EOF)
	ErrIndex  int   // index of the offending token when rejected (len(input) = EOF)
	Steps     int
}

// Sim runs the LR automaton of t over the tokens (symbol ids, without EOF).
func (t *Table) Sim(tokens []int, maxSteps int) SimResult {
	g := t.G
	res := SimResult{ErrIndex: -1}
	stack := []int{0}
	pos := 0
	next := func() int {
		res.Fetched++
		if pos < len(tokens) {
			pos++
			return tokens[pos-1]
		}
		pos++
		return g.EOF
	}
	la := next()
	for {
		res.Steps++
		if res.Steps > maxSteps {
			res.StepLimit = true
			return res
		}
		st := stack[len(stack)-1]
		var a Action
		if la >= 0 && la < g.NSym && !g.IsNT[la] {
			a = t.Act[st][la]
		}
		switch a.Kind {
		case ActErr:
			res.ErrIndex = pos - 1
			return res
		case ActAccept:
			res.Accept = true
			return res
		case ActShift:
			stack = append(stack, a.Arg)
			la = next()
		case ActReduce:
			r := g.Rules[a.Arg]
			stack = stack[:len(stack)-len(r.Rhs)]
			to := t.Goto[stack[len(stack)-1]][r.Lhs]
			if to < 0 {
				panic("ref: missing goto")
			}
			stack = append(stack, to)
			res.Reds = append(res.Reds, a.Arg)
		}
	}
}
