package ref

import "fmt"

type eitem struct{ r, d, o int }

// Earley decides membership of tokens (symbol ids, without EOF) in L(G) and,
// for non-sentences, the index of the first token that cannot continue any
// sentence (len(tokens) means the end marker). Requires all nonterminals to be
// productive for the viable-prefix claim.
func (g *Grammar) Earley(tokens []int) (accept bool, bad int) {
	n := len(tokens)
	sets := make([][]eitem, n+1)
	seen := make([]map[eitem]bool, n+1)
	for i := range seen {
		seen[i] = map[eitem]bool{}
	}
	add := func(i int, it eitem) {
		if !seen[i][it] {
			seen[i][it] = true
			sets[i] = append(sets[i], it)
		}
	}
	add(0, eitem{0, 0, 0})
	for i := 0; i <= n; i++ {
		for k := 0; k < len(sets[i]); k++ {
			it := sets[i][k]
			rhs := g.Rules[it.r].Rhs
			if it.d < len(rhs) {
				x := rhs[it.d]
				if g.IsNT[x] {
					for _, ri := range g.byLhs[x] {
						add(i, eitem{ri, 0, i})
					}
					if g.nullable[x] {
						add(i, eitem{it.r, it.d + 1, it.o})
					}
				}
			} else {
				lhs := g.Rules[it.r].Lhs
				for k2 := 0; k2 < len(sets[it.o]); k2++ {
					p := sets[it.o][k2]
					prhs := g.Rules[p.r].Rhs
					if p.d < len(prhs) && prhs[p.d] == lhs {
						add(i, eitem{p.r, p.d + 1, p.o})
					}
				}
			}
		}
		if i == n {
			break
		}
		for _, it := range sets[i] {
			rhs := g.Rules[it.r].Rhs
			if it.d < len(rhs) && rhs[it.d] == tokens[i] && !g.IsNT[rhs[it.d]] {
				add(i+1, eitem{it.r, it.d + 1, it.o})
			}
		}
		if len(sets[i+1]) == 0 {
			return false, i
		}
	}
	if seen[n][eitem{0, 1, 0}] {
		return true, -1
	}
	return false, n
}

// Node is a parse tree node.
type Node struct {
	Sym  int
	Rule int // -1 for leaves (terminals) and unexpanded nonterminals
	Kids []*Node
	Tok  int // token index for leaves
}

// Replay checks that reds (rule numbers in the order reduced, rule 0 never
// listed) read backwards is a rightmost derivation of exactly tokens from the
// start symbol, and returns the parse tree.
func (g *Grammar) Replay(tokens []int, reds []int) (*Node, error) {
	root := &Node{Sym: g.Rules[0].Rhs[0], Rule: -1}
	form := []*Node{root}
	for k := len(reds) - 1; k >= 0; k-- {
		r := reds[k]
		if r <= 0 || r >= len(g.Rules) {
			return nil, fmt.Errorf("reduction %d: rule number %d out of range", k, r)
		}
		j := len(form) - 1
		for j >= 0 && !(g.IsNT[form[j].Sym] && form[j].Rule == -1) {
			j--
		}
		if j < 0 {
			return nil, fmt.Errorf("reduction %d (%s): no nonterminal left to expand", k, g.RuleString(r))
		}
		if form[j].Sym != g.Rules[r].Lhs {
			return nil, fmt.Errorf("reduction %d (%s): rightmost nonterminal is %s", k, g.RuleString(r), g.Names[form[j].Sym])
		}
		nd := form[j]
		nd.Rule = r
		kids := make([]*Node, len(g.Rules[r].Rhs))
		for i, s := range g.Rules[r].Rhs {
			kids[i] = &Node{Sym: s, Rule: -1}
		}
		nd.Kids = kids
		nf := make([]*Node, 0, len(form)+len(kids))
		nf = append(nf, form[:j]...)
		nf = append(nf, kids...)
		nf = append(nf, form[j+1:]...)
		form = nf
		if len(form) > len(tokens)+len(reds)+4 {
			// cannot shrink any more than one per remaining epsilon rule; keep going, final check decides
		}
	}
	if len(form) != len(tokens) {
		return nil, fmt.Errorf("derived sentential form has %d symbols, input has %d tokens", len(form), len(tokens))
	}
	for i, nd := range form {
		if g.IsNT[nd.Sym] {
			return nil, fmt.Errorf("nonterminal %s left unexpanded", g.Names[nd.Sym])
		}
		if nd.Sym != tokens[i] {
			return nil, fmt.Errorf("position %d: derivation yields %s, input has %s", i, g.Names[nd.Sym], g.Names[tokens[i]])
		}
		nd.Tok = i
	}
	return root, nil
}
