// Package render turns an abstract grammar specification into grammar-file
// text, with optional hostile layout.
package render

import (
	"fmt"
	"math/rand"
	"strings"

	"verif/harness/spec"
)

// Parts are the verbatim blocks of a grammar file.
type Parts struct {
	Prologue  string // text between %{ and %}
	Prologue2 string // optional second %{ %} block (later in the declaration section)
	Union     string // text between the braces of %union
	Epilogue  string // text after the second %%
}

// Options control the layout.
type Options struct {
	Rng *rand.Rand // nil: canonical layout
	// NoSecondMarker omits the second %% (only honoured when Epilogue is empty)
	NoSecondMarker bool
	// ActionOf overrides the action text of rule k (C10 uses raw hostile actions)
	ActionOf func(k int) string
	// NoUnion omits the %union block
	NoUnion bool
	// OneLineRules writes the whole rule section on a single physical line (a "minified" grammar)
	OneLineRules bool
}

// symLex is the lexical element of a symbol: a quoted literal needs no blank
// around it ('a''b', %left'+', A'b' are all legal), a name does.
func symLex(src string) lex {
	return lex{s: src, punct: len(src) > 0 && src[0] == '\''}
}

type lex struct {
	s     string
	punct bool // may touch its neighbours
	nl    bool // prefer a newline after (canonical layout)
	raw   bool // emitted verbatim, always followed by newline
}

var hostile = []string{"%%", "{", "}", "'", "\"", ":", "|", ";", "*", "/", "%token", "%left", "%prec", "<", ">", "$$", "$1", "x", "A", " ", "%{", "%}", "%union", "/*", "//", "**", "***", "é", "加减法", "—", "ß%", "日本 {"}

func comment(r *rand.Rand) string {
	n := r.Intn(5)
	parts := []string{}
	for i := 0; i < n; i++ {
		parts = append(parts, hostile[r.Intn(len(hostile))])
	}
	body := strings.Join(parts, " ")
	if r.Intn(2) == 0 {
		return "//" + strings.ReplaceAll(body, "\n", " ") + "\n"
	}
	body = strings.ReplaceAll(body, "*/", "* /")
	// make sure the body cannot end in '*' + '/' through concatenation
	switch r.Intn(4) {
	case 0:
		return "/*" + body + "*/"
	case 1:
		return "/** " + body + " **/"
	case 2:
		return "/**/"
	}
	return "/* " + body + " */"
}

// alias is a string literal as it may follow a token name in a %token line.
func alias(r *rand.Rand) string {
	n := 1 + r.Intn(3)
	parts := []string{}
	for i := 0; i < n; i++ {
		parts = append(parts, hostile[r.Intn(len(hostile))])
	}
	body := strings.ReplaceAll(strings.Join(parts, " "), "\"", "\\\"")
	return "\"" + body + "\""
}

func sep(r *rand.Rand, mayBeEmpty bool, canonical string) string {
	if r == nil {
		return canonical
	}
	var sb strings.Builder
	n := r.Intn(4)
	if !mayBeEmpty && n == 0 {
		n = 1
	}
	for i := 0; i < n; i++ {
		switch r.Intn(7) {
		case 0, 1, 2:
			sb.WriteString(" ")
		case 3:
			sb.WriteString("\t")
		case 4:
			sb.WriteString("\n")
		default:
			c := comment(r)
			sb.WriteString(c)
			if !strings.HasSuffix(c, "\n") && r.Intn(2) == 0 {
				sb.WriteString(" ")
			}
		}
	}
	s := sb.String()
	if !mayBeEmpty && s == "" {
		s = " "
	}
	return s
}

func join(r *rand.Rand, ls []lex, crlf bool) string {
	var out strings.Builder
	sb := &sepWriter{out: &out, crlf: crlf}
	for i, l := range ls {
		out.WriteString(l.s)
		if l.raw {
			// a verbatim block is usually followed by a line break, sometimes only by a blank
			if r != nil && i < len(ls)-1 && r.Intn(4) == 0 {
				sb.WriteString(" ")
			} else {
				sb.WriteString("\n")
			}
			continue
		}
		if i == len(ls)-1 {
			sb.WriteString("\n")
			break
		}
		nx := ls[i+1]
		can := " "
		if l.nl {
			can = "\n"
		}
		mayEmpty := (l.punct || nx.punct) && !nx.raw
		if nx.raw {
			// verbatim blocks start on their own line
			s := sep(r, true, "")
			if !strings.HasSuffix(s, "\n") {
				if r != nil && r.Intn(4) == 0 {
					s += " " // the block starts on the line of the element before it
				} else {
					s += "\n"
				}
			}
			sb.WriteString(s)
			continue
		}
		sb.WriteString(sep(r, mayEmpty, can))
	}
	return out.String()
}

// sepWriter writes the text between grammar elements; with crlf every line
// break in it is written as CR LF (verbatim blocks, actions and literals keep
// their own bytes).
type sepWriter struct {
	out  *strings.Builder
	crlf bool
}

func (w *sepWriter) WriteString(s string) {
	if w.crlf {
		s = strings.ReplaceAll(s, "\n", "\r\n")
	}
	w.out.WriteString(s)
}

// Render produces the grammar file text.
func Render(g *spec.Grammar, p Parts, o Options) string {
	r := o.Rng
	var decl []lex
	coin := func(n int) int {
		if r == nil {
			return 0
		}
		return r.Intn(n)
	}
	// --- declaration blocks, each a []lex; order shuffled where irrelevant
	var blocks [][]lex
	blocks = append(blocks, []lex{{s: "%{\n" + p.Prologue + "\n%}", raw: true}})
	if p.Prologue2 != "" {
		blocks = append(blocks, []lex{{s: "%{\n" + p.Prologue2 + "\n%}", raw: true}})
	}
	if !o.NoUnion {
		ub := "%union {" + p.Union + "}"
		switch coin(3) {
		case 1:
			ub = "%union\n{" + p.Union + "}"
		case 2:
			ub = "%union  \t{" + p.Union + "}"
		}
		blocks = append(blocks, []lex{{s: ub, raw: true}})
	}
	// %token lines: group by tag; literals first within a line
	type grp struct {
		tag  string
		lits []int
		ids  []int
	}
	groups := map[string]*grp{}
	order := []string{}
	for i, t := range g.Tokens {
		if t.Decl != "token" {
			continue
		}
		gr := groups[t.Tag]
		if gr == nil {
			gr = &grp{tag: t.Tag}
			groups[t.Tag] = gr
			order = append(order, t.Tag)
		}
		if t.Name == "" {
			gr.lits = append(gr.lits, i)
		} else {
			gr.ids = append(gr.ids, i)
		}
	}
	tokLine := func(tag string, toks []int, withNum bool) []lex {
		l := []lex{{s: "%token"}}
		if tag != "" {
			l = append(l, lex{s: "<", punct: true}, lex{s: tag}, lex{s: ">", punct: true})
		}
		for _, ti := range toks {
			t := g.Tokens[ti]
			l = append(l, symLex(t.Src()))
			if withNum && t.Name != "" && t.Num != 0 {
				l = append(l, lex{s: fmt.Sprint(t.Num)})
			} else if t.Name != "" && coin(5) == 1 {
				// a string alias after the token name (legal, unused by the generator)
				l = append(l, lex{s: alias(r)})
			}
		}
		l[len(l)-1].nl = true
		return l
	}
	for _, tag := range order {
		gr := groups[tag]
		switch {
		case coin(3) == 1 && len(gr.ids) > 0:
			// one line per token
			for _, ti := range append(append([]int{}, gr.lits...), gr.ids...) {
				blocks = append(blocks, tokLine(tag, []int{ti}, true))
			}
		case coin(3) == 2:
			// tag and number declared separately (as in the repository's examples)
			blocks = append(blocks, tokLine(tag, append(append([]int{}, gr.lits...), gr.ids...), false))
			var numbered []int
			for _, ti := range gr.ids {
				if g.Tokens[ti].Num != 0 {
					numbered = append(numbered, ti)
				}
			}
			if len(numbered) > 0 {
				blocks = append(blocks, tokLine("", numbered, true))
			}
		default:
			blocks = append(blocks, tokLine(tag, append(append([]int{}, gr.lits...), gr.ids...), true))
		}
	}
	// %type lines
	tgroups := map[string][]int{}
	torder := []string{}
	for i, nt := range g.NTs {
		if nt.Tag == "" {
			continue
		}
		if _, ok := tgroups[nt.Tag]; !ok {
			torder = append(torder, nt.Tag)
		}
		tgroups[nt.Tag] = append(tgroups[nt.Tag], i)
	}
	for _, tag := range torder {
		if coin(3) == 1 && len(tgroups[tag]) > 1 {
			// one %type line per nonterminal
			for _, ni := range tgroups[tag] {
				blocks = append(blocks, []lex{{s: "%type"}, {s: "<", punct: true}, {s: tag}, {s: ">", punct: true}, {s: g.NTs[ni].Name, nl: true}})
			}
			continue
		}
		l := []lex{{s: "%type"}, {s: "<", punct: true}, {s: tag}, {s: ">", punct: true}}
		for _, ni := range tgroups[tag] {
			l = append(l, lex{s: g.NTs[ni].Name})
		}
		l[len(l)-1].nl = true
		blocks = append(blocks, l)
	}
	// yaccgo's default start symbol is the nonterminal called "start": the
	// directive may be left out for it
	if !(g.NTs[g.Start].Name == "start" && coin(2) == 1) {
		blocks = append(blocks, []lex{{s: "%start"}, {s: g.NTs[g.Start].Name, nl: true}})
	}
	// shuffle non-precedence blocks (keep prologue first for readability in canonical mode)
	if r != nil {
		r.Shuffle(len(blocks), func(i, j int) { blocks[i], blocks[j] = blocks[j], blocks[i] })
		// the two prologue blocks keep their relative order
		i1, i2 := -1, -1
		for i, b := range blocks {
			if len(b) == 1 && b[0].raw && strings.HasPrefix(b[0].s, "%{") {
				if b[0].s == "%{\n"+p.Prologue+"\n%}" && i1 < 0 {
					i1 = i
				} else {
					i2 = i
				}
			}
		}
		if i1 >= 0 && i2 >= 0 && i2 < i1 {
			blocks[i1], blocks[i2] = blocks[i2], blocks[i1]
		}
	}
	// precedence lines: relative order fixed, but they must come after the
	// %token line of every token they name when that token carries a tag or a
	// number only there; simplest is to put them after all other blocks, or
	// interleaved at random positions after the last %token block.
	var precBlocks [][]lex
	for _, pl := range g.Precs {
		kw := "%left"
		if pl.Assoc == "right" {
			kw = "%right"
		} else if pl.Assoc == "nonassoc" {
			kw = "%nonassoc"
		}
		l := []lex{{s: kw}}
		// tokens declared only here may carry a tag on the precedence line
		tag := ""
		for _, ti := range pl.Toks {
			if g.Tokens[ti].Decl != "token" && g.Tokens[ti].Tag != "" {
				tag = g.Tokens[ti].Tag
			}
		}
		if tag != "" {
			l = append(l, lex{s: "<", punct: true}, lex{s: tag}, lex{s: ">", punct: true})
		}
		for _, ti := range pl.Toks {
			l = append(l, symLex(g.Tokens[ti].Src()))
		}
		l[len(l)-1].nl = true
		precBlocks = append(precBlocks, l)
	}
	if r != nil && len(precBlocks) > 0 {
		// interleave: choose increasing insertion points
		pos := make([]int, len(precBlocks))
		for i := range pos {
			pos[i] = r.Intn(len(blocks) + 1)
		}
		sortInts(pos)
		var nb [][]lex
		pi := 0
		for i := 0; i <= len(blocks); i++ {
			for pi < len(pos) && pos[pi] == i {
				nb = append(nb, precBlocks[pi])
				pi++
			}
			if i < len(blocks) {
				nb = append(nb, blocks[i])
			}
		}
		blocks = nb
	} else {
		blocks = append(blocks, precBlocks...)
	}
	for _, b := range blocks {
		decl = append(decl, b...)
	}
	decl = append(decl, lex{s: "%%", nl: true})

	// one rendering in five uses CR LF line ends between the grammar's elements
	crlf := r != nil && r.Intn(5) == 0
	// --- rules
	var rules []lex
	k := 0
	for k < len(g.Rules) {
		lhs := g.Rules[k].Lhs
		rules = append(rules, lex{s: g.NTs[lhs].Name}, lex{s: ":", punct: true})
		for {
			ru := g.Rules[k]
			if len(ru.Rhs) == 0 && coin(2) == 1 {
				rules = append(rules, lex{s: "/* empty */"})
			}
			for _, s := range ru.Rhs {
				rules = append(rules, symLex(g.SymSrc(s)))
			}
			act := ""
			if !g.NoAction {
				act = "{ " + g.ActionText(k) + " }"
			}
			if o.ActionOf != nil {
				act = o.ActionOf(k)
			}
			precAfter := ru.Prec >= 0 && act != "" && coin(4) == 1
			if ru.Prec >= 0 && !precAfter {
				rules = append(rules, lex{s: "%prec"}, symLex(g.Tokens[ru.Prec].Src()))
			}
			if act != "" {
				rules = append(rules, lex{s: act, punct: true})
			}
			if precAfter {
				rules = append(rules, lex{s: "%prec"}, symLex(g.Tokens[ru.Prec].Src()))
			}
			k++
			if k < len(g.Rules) && g.Rules[k].Lhs == lhs && coin(4) != 1 {
				rules[len(rules)-1].nl = true
				rules = append(rules, lex{s: "|", punct: true})
				continue
			}
			break
		}
		if coin(3) != 1 {
			rules = append(rules, lex{s: ";", punct: true, nl: true})
		} else {
			rules[len(rules)-1].nl = true
		}
	}
	rulesText := join(r, rules, crlf)
	if o.OneLineRules {
		var parts []string
		for _, l := range rules {
			if len(l.s) >= 3 && l.s[0] == '\'' && l.s[len(l.s)-1] == '\'' {
				parts = append(parts, l.s) // a character literal (it may be a newline) stays as it is
				continue
			}
			parts = append(parts, strings.ReplaceAll(l.s, "\n", " "))
		}
		rulesText = strings.Join(parts, " ") + "\n"
	}
	text := join(r, decl, crlf) + rulesText
	if p.Epilogue == "" && o.NoSecondMarker {
		if r != nil && r.Intn(2) == 0 {
			// the file may end right after its last element, without a final line break
			text = strings.TrimRight(text, " \t\r\n")
		}
		return text
	}
	return text + "%%" + p.Epilogue
}

func sortInts(a []int) {
	for i := 1; i < len(a); i++ {
		for j := i; j > 0 && a[j] < a[j-1]; j-- {
			a[j], a[j-1] = a[j-1], a[j]
		}
	}
}
