package main

import (
	"fmt"
	"os"
	"path/filepath"
	"regexp"
	"sort"
	"strconv"
	"strings"
	"time"

	"github.com/awalterschulze/gographviz"

	"verif/harness/gen"
	"verif/harness/render"
	"verif/harness/spec"
)

// C18, CLI leg: `yaccgo generate go -u -g x.png g.y out.go` prints the DOT text and writes
// the dense table of the same run; `yaccgo debug g.y` prints the listing in another process.
// The DOT text and the listing are compared with the table found in out.go, and with each other.

func c18CLICases(tier string) int {
	if tier == "thorough" {
		return 300
	}
	return 24
}

// parseDotLabel splits a record label into item strings "lhs|dot|syms" and reduce annotations.
func parseDotLabel(label string, i int) (items, reds []string, err error) {
	label = strings.TrimSuffix(strings.TrimPrefix(label, "\""), "\"")
	head := fmt.Sprintf("<f0> state %d|{", i)
	if !strings.HasPrefix(label, head) {
		return nil, nil, fmt.Errorf("node state_%d has label %q", i, label)
	}
	rest := label[len(head):]
	end := dotIndex(rest, '}')
	if end < 0 {
		return nil, nil, fmt.Errorf("node state_%d: unbalanced label %q", i, label)
	}
	itemsPart, tail := rest[:end], rest[end+1:]
	for _, s := range dotSplit(itemsPart, '|') {
		k := strings.Index(s, "-\\>")
		if k < 0 {
			return nil, nil, fmt.Errorf("node state_%d: item %q without arrow", i, s)
		}
		lhs, body := s[:k], s[k+3:]
		if body == "ε" {
			items = append(items, lhs+"|eps|")
			continue
		}
		body = strings.ReplaceAll(body, "•", " • ")
		body = dotUnescape(body)
		dot := -1
		syms := []string{}
		for _, w := range strings.Fields(body) {
			if w == "•" {
				if dot >= 0 {
					return nil, nil, fmt.Errorf("node state_%d: two dots in %q", i, s)
				}
				dot = len(syms)
				continue
			}
			syms = append(syms, w)
		}
		items = append(items, fmt.Sprintf("%s|%d|%s", lhs, dot, strings.Join(syms, " ")))
	}
	if tail != "" {
		if !strings.HasPrefix(tail, "|{") || !strings.HasSuffix(tail, "}") {
			return nil, nil, fmt.Errorf("node state_%d: unexpected label tail %q", i, tail)
		}
		for _, s := range dotSplit(tail[2:len(tail)-1], '|') {
			s = dotUnescape(s)
			k := strings.LastIndex(s, ": reduce rule at ")
			if k < 0 {
				return nil, nil, fmt.Errorf("node state_%d: bad annotation %q", i, s)
			}
			reds = append(reds, strings.TrimSpace(s[:k])+s[k:])
		}
	}
	sort.Strings(items)
	sort.Strings(reds)
	return items, reds, nil
}

// --- DOT record labels: { } | < > and the double quote are written with a backslash when they are text

// dotIndex returns the index of the first unescaped occurrence of ch in s, or -1.
func dotIndex(s string, ch byte) int {
	for i := 0; i < len(s); i++ {
		if s[i] == '\\' {
			i++
			continue
		}
		if s[i] == ch {
			return i
		}
	}
	return -1
}

// dotSplit splits s at every unescaped sep.
func dotSplit(s string, sep byte) []string {
	var res []string
	for {
		k := dotIndex(s, sep)
		if k < 0 {
			return append(res, s)
		}
		res = append(res, s[:k])
		s = s[k+1:]
	}
}

// dotUnescape removes the backslash of every escaped character.
func dotUnescape(s string) string {
	var sb strings.Builder
	for i := 0; i < len(s); i++ {
		if s[i] == '\\' && i+1 < len(s) {
			i++
		}
		sb.WriteByte(s[i])
	}
	return sb.String()
}

var denseRowRe = regexp.MustCompile(`(?m)^/\* (\d+) \*/ \{([-0-9,\t ]*)\},$`)

// parseDenseTable reads the -u table and its symbol-name header from generated Go text.
func parseDenseTable(src string) (names []string, rows [][]int, err error) {
	i := strings.Index(src, "var StateActionArray = [][]int{")
	if i < 0 {
		return nil, nil, fmt.Errorf("no StateActionArray in the generated file")
	}
	src = src[i:]
	h := strings.Index(src, "/*     ")
	he := strings.Index(src, "*/\n")
	if h < 0 || he < h {
		return nil, nil, fmt.Errorf("no symbol header comment")
	}
	for _, n := range strings.Split(src[h+7:he], "\t") {
		if n != "" {
			names = append(names, n)
		}
	}
	for _, m := range denseRowRe.FindAllStringSubmatch(src, -1) {
		var row []int
		for _, f := range strings.Split(m[2], ",") {
			f = strings.TrimSpace(f)
			if f == "" {
				continue
			}
			v, e := strconv.Atoi(f)
			if e != nil {
				return nil, nil, e
			}
			row = append(row, v)
		}
		idx, _ := strconv.Atoi(m[1])
		if idx != len(rows) {
			return nil, nil, fmt.Errorf("table row %d out of order", idx)
		}
		rows = append(rows, row)
	}
	return names, rows, nil
}

func c18CLIRun(seed int64, idx int) (o Outcome) {
	r := caseRng(seed, "C18-cli", idx)
	var g *spec.Grammar
	if idx%3 == 0 {
		g = gen.OpTable(r)
	} else {
		g = gen.RandUsable(r, stdCfg)
	}
	c18Printable(g)
	g.NoAction = true
	text := render.Render(g, plainParts, render.Options{})
	o = Outcome{Status: "held", Replay: map[string]interface{}{"grammar": text}}
	fail := func(f string, a ...interface{}) Outcome {
		o.Status = "violated"
		o.Detail = "CLI leg: " + fmt.Sprintf(f, a...) + "\ngrammar:\n" + text
		return o
	}
	dir := filepath.Join(scratch(), fmt.Sprintf("c18cli-%d-%d", os.Getpid(), idx))
	os.MkdirAll(dir, 0755)
	defer os.RemoveAll(dir)
	os.WriteFile(filepath.Join(dir, "g.y"), []byte(text), 0644)
	gres := runCLI(20, 2*time.Minute, dir, "generate", "go", "-u", "-g", filepath.Join(dir, "x.png"), "g.y", "out.go")
	src, err := os.ReadFile(filepath.Join(dir, "out.go"))
	if gres.Exit != 0 || err != nil {
		o.Status = "inconclusive"
		o.Detail = fmt.Sprintf("generate -g failed (exit %d): %s", gres.Exit, trunc(gres.Out, 400))
		return o
	}
	dres := runCLI(20, 2*time.Minute, dir, "debug", "g.y")
	if dres.Exit != 0 {
		o.Status = "inconclusive"
		o.Detail = "debug failed: " + trunc(dres.Out, 400)
		return o
	}
	o.count("eval:cli_runs", 2)
	names, rows, err := parseDenseTable(string(src))
	if err != nil {
		o.Status = "inconclusive"
		o.Detail = "cannot read the dense table of out.go: " + err.Error()
		return o
	}
	n := len(rows)
	errc, accc := n+100, n+200
	// --- DOT text
	di := strings.Index(gres.Out, "digraph G {")
	if di < 0 {
		return fail("generate -g printed no DOT text: %s", trunc(gres.Out, 300))
	}
	de := strings.Index(gres.Out[di:], "\n}\n")
	if de < 0 {
		return fail("DOT text is not terminated")
	}
	ast, err := gographviz.ParseString(gres.Out[di : di+de+3])
	if err != nil {
		return fail("DOT text does not parse: %v", err)
	}
	gr := gographviz.NewGraph()
	if err := gographviz.Analyse(ast, gr); err != nil {
		return fail("DOT text does not analyse: %v", err)
	}
	if len(gr.Nodes.Nodes) != n {
		return fail("DOT text has %d nodes, the table written in the same run has %d states", len(gr.Nodes.Nodes), n)
	}
	dotItems := make([][]string, n)
	for i := 0; i < n; i++ {
		nd := gr.Nodes.Lookup[fmt.Sprintf("state_%d", i)]
		if nd == nil {
			return fail("DOT text lacks node state_%d", i)
		}
		items, reds, err := parseDotLabel(nd.Attrs["label"], i)
		if err != nil {
			return fail("%v", err)
		}
		dotItems[i] = items
		var wantRed []string
		hasAcc := false
		for a, v := range rows[i] {
			if v == accc {
				hasAcc = true
			}
			if v < 0 {
				wantRed = append(wantRed, fmt.Sprintf("%s: reduce rule at %d", dotName(names[a]), -v))
			}
		}
		sort.Strings(wantRed)
		if strings.Join(reds, "\n") != strings.Join(wantRed, "\n") {
			return fail("DOT node state_%d annotates reductions %v, the table row has %v", i, reds, wantRed)
		}
		if (nd.Attrs["style"] == "filled") != hasAcc {
			return fail("DOT node state_%d filled=%v, accept cell in its row: %v", i, nd.Attrs["style"] == "filled", hasAcc)
		}
		o.count("cli_dot_reduce_annotations_compared", len(wantRed))
	}
	wantEdges := map[string]int{}
	for i := range rows {
		for a, v := range rows[i] {
			if v >= 0 && v != errc && v != accc {
				wantEdges[fmt.Sprintf("state_%d->state_%d:%s", i, v, dotName(names[a]))]++
			}
		}
	}
	gotEdges := map[string]int{}
	for _, e := range gr.Edges.Edges {
		l := strings.TrimSuffix(strings.TrimPrefix(e.Attrs["label"], "\""), "\"")
		l = strings.TrimSpace(dotUnescape(l))
		gotEdges[fmt.Sprintf("%s->%s:%s", e.Src, e.Dst, l)]++
	}
	for k, c := range wantEdges {
		if gotEdges[k] != c {
			return fail("DOT text lacks (or duplicates) edge %s", k)
		}
	}
	for k := range gotEdges {
		if wantEdges[k] == 0 {
			return fail("DOT text has edge %s that the table does not have", k)
		}
	}
	o.count("cli_dot_edges_compared", len(wantEdges))
	// --- listing of `yaccgo debug` (another process) vs the same table and vs the DOT items
	states, _, _, err := parseListing(dres.Out)
	if err != nil {
		return fail("debug listing does not parse: %v", err)
	}
	if len(states) != n {
		return fail("debug lists %d states, the generated table has %d", len(states), n)
	}
	nameIdx := map[string]int{}
	for a, nm := range names {
		nameIdx[nm] = a
	}
	for i := 0; i < n; i++ {
		ls := states[i]
		if ls == nil {
			return fail("debug listing lacks state %d", i)
		}
		for a, v := range rows[i] {
			if v >= 0 && v != errc && v != accc {
				if to, ok := ls.gotos[names[a]]; !ok || to != v {
					return fail("table has (state %d, %s) -> %d, debug lists %v (present=%v)", i, names[a], v, to, ok)
				}
			}
		}
		for nm := range ls.gotos {
			if _, ok := nameIdx[nm]; !ok {
				return fail("debug names unknown symbol %q", nm)
			}
		}
		// items: listing "lhs|dot|a b c" with internal names -> DOT names
		var li []string
		for _, it := range ls.items {
			f := strings.SplitN(it, "|", 3)
			syms := strings.Fields(f[2])
			if len(syms) == 0 {
				li = append(li, f[0]+"|eps|")
				continue
			}
			for k := range syms {
				syms[k] = dotName(syms[k])
			}
			li = append(li, f[0]+"|"+f[1]+"|"+strings.Join(syms, " "))
		}
		sort.Strings(li)
		if strings.Join(li, "\n") != strings.Join(dotItems[i], "\n") {
			return fail("state %d: debug lists items %v, the DOT text shows %v", i, li, dotItems[i])
		}
		o.count("cli_items_compared", len(li))
	}
	o.Nontrivial = n >= 4
	o.Hash = hashOf("cli", text)
	o.count("cli_grammars", 1)
	return o
}
