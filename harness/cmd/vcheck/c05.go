package main

import (
	"fmt"
	"math/rand"

	utils "github.com/acekingke/yaccgo/Utils"

	"verif/harness/render"
	"verif/harness/spec"
	"verif/harness/yx"
)

// C05 (in-process legs): PackTable/UnPackTable round trip on matrices, and the
// documented packed lookup against the dense table for every cell.
type c05in struct{}

func (c05in) matrixCases(tier string) int {
	if tier == "thorough" {
		return 2 + 400
	}
	return 2 + 60
}
func (c05in) grammarCases(tier string) int {
	if tier == "thorough" {
		return len(families) + 120000
	}
	return len(families) + 3000
}
func (c05in) Extra(tier string) map[string]interface{} { return tinyExtra(tier) }

func packRoundTrip(m [][]int) (msg string) {
	defer func() {
		if e := recover(); e != nil {
			msg = fmt.Sprintf("panic in PackTable/UnPackTable: %v on %v", e, m)
		}
	}()
	cp := make([][]int, len(m))
	for i := range m {
		cp[i] = append([]int{}, m[i]...)
	}
	T, D, C := utils.PackTable(cp)
	if len(D) != len(m) {
		return fmt.Sprintf("displacement vector has %d entries for %d rows: %v", len(D), len(m), m)
	}
	if len(T) != len(C) {
		return fmt.Sprintf("value and check vectors differ in length (%d, %d): %v", len(T), len(C), m)
	}
	for i := range m {
		for j, v := range m[i] {
			if cp[i][j] != v {
				return fmt.Sprintf("PackTable modified its input at (%d,%d): %v", i, j, m)
			}
			if v != 0 {
				p := D[i] + j
				if p < 0 || p >= len(T) {
					return fmt.Sprintf("entry (%d,%d)=%d maps to index %d outside the packed vector (len %d): %v", i, j, v, p, len(T), m)
				}
			}
		}
	}
	back := utils.UnPackTable(len(m), len(m[0]), T, D, C)
	for i := range m {
		for j := range m[i] {
			if back[i][j] != m[i][j] {
				return fmt.Sprintf("unpack(pack(m)) differs at (%d,%d): got %d want %d; m=%v T=%v D=%v C=%v", i, j, back[i][j], m[i][j], m, T, D, C)
			}
		}
	}
	return ""
}

func enumMatrices(rows, cols, base int, f func(m [][]int) bool) {
	n := rows * cols
	cell := make([]int, n)
	for {
		m := make([][]int, rows)
		for i := 0; i < rows; i++ {
			m[i] = cell[i*cols : (i+1)*cols]
		}
		if !f(m) {
			return
		}
		k := 0
		for k < n {
			cell[k]++
			if cell[k] < base {
				break
			}
			cell[k] = 0
			k++
		}
		if k == n {
			return
		}
	}
}

func (p c05in) runMatrix(r *rand.Rand, idx int) Outcome {
	o := Outcome{Status: "held", Hash: fmt.Sprint("matrix-batch-", idx), Nontrivial: true}
	fail := func(msg string) Outcome {
		o.Status = "violated"
		o.Detail = msg
		return o
	}
	switch idx {
	case 0:
		for rows := 1; rows <= 3; rows++ {
			for cols := 1; cols <= 3; cols++ {
				var msg string
				enumMatrices(rows, cols, 3, func(m [][]int) bool {
					o.count("eval:matrices_exhaustive_3x3_over_012", 1)
					msg = packRoundTrip(m)
					return msg == ""
				})
				if msg != "" {
					return fail(msg)
				}
			}
		}
		o.Sample = "all matrices with <=3 rows and <=3 columns over {0,1,2} (exhaustive)"
	case 1:
		for rows := 1; rows <= 2; rows++ {
			for cols := 1; cols <= 5; cols++ {
				var msg string
				enumMatrices(rows, cols, 2, func(m [][]int) bool {
					o.count("eval:matrices_exhaustive_2x5_over_01", 1)
					msg = packRoundTrip(m)
					return msg == ""
				})
				if msg != "" {
					return fail(msg)
				}
			}
		}
	default:
		for k := 0; k < 1000; k++ {
			rows, cols := 1+r.Intn(8), 1+r.Intn(10)
			dens := 5 + r.Intn(86)
			m := make([][]int, rows)
			for i := range m {
				m[i] = make([]int, cols)
				for j := range m[i] {
					if r.Intn(100) < dens {
						switch r.Intn(3) {
						case 0:
							m[i][j] = 1 + r.Intn(9)
						case 1:
							m[i][j] = -(1 + r.Intn(9))
						default:
							m[i][j] = 100 + r.Intn(300)
						}
					}
				}
			}
			o.count("eval:matrices_random", 1)
			if msg := packRoundTrip(m); msg != "" {
				return fail(msg)
			}
			if k == 0 && idx == 2 {
				o.Sample = map[string]interface{}{"random_matrix": m}
			}
		}
	}
	return o
}

// packedLookup is the documented lookup through the packed arrays.
func packedLookup(b *yx.Built, state, a int) int {
	L := b.Root.LALR1
	nt := len(L.G.VtSet)
	off := L.OffsetTable[state] + a
	// a slot outside the packed vector is a blank cell (default of the row / goto column)
	if off < 0 || off >= len(L.CheckTable) || L.CheckTable[off] != state {
		if a > nt {
			return L.GoToDef[a-nt-1]
		}
		return L.ActionDef[state]
	}
	return L.ActionTable[off]
}

func (p c05in) runGrammar(r *rand.Rand, idx int) (o Outcome) {
	cfg := stdCfg
	if idx%3 == 0 {
		cfg = bigCfg
	}
	g := pickGrammar(r, idx, true, cfg)
	return p.runGrammarOn(g, idx)
}

func (p c05in) runGrammarOn(g *spec.Grammar, idx int) (o Outcome) {
	g.NoAction = true
	text := render.Render(g, plainParts, render.Options{})
	o = Outcome{Status: "held", Replay: map[string]interface{}{"grammar": text}}
	b := yx.Build(text, false)
	if !b.OK() {
		o.Status = "inconclusive"
		o.Detail = fmt.Sprintf("usable grammar not built: err=%v panic=%s", b.Err, b.Panic)
		return o
	}
	L := b.Root.LALR1
	if !L.NeedPacked {
		o.count("grammars_not_packed", 1)
		o.Status = "held"
		return o
	}
	defer func() {
		if e := recover(); e != nil {
			o.Status = "violated"
			o.Detail = fmt.Sprintf("packed lookup panics: %v\ngrammar:\n%s", e, text)
		}
	}()
	if len(L.OffsetTable) != len(L.GTable) || len(L.ActionDef) != len(L.GTable) {
		o.Status = "violated"
		o.Detail = "offset/default vectors do not have one entry per state"
		return o
	}
	blanks := 0
	for s, row := range L.GTable {
		for a, want := range row {
			got := packedLookup(b, s, a)
			o.count("cells_compared", 1)
			if got != want {
				o.Status = "violated"
				o.Detail = fmt.Sprintf("packed lookup of (state %d, symbol %d %s) gives %d, dense table has %d\ngrammar:\n%s", s, a, L.G.Symbols[a].Name, got, want, text)
				return o
			}
			off := L.OffsetTable[s] + a
			if off < 0 || off >= len(L.CheckTable) || L.CheckTable[off] != s {
				blanks++
			}
		}
	}
	o.count("cells_served_by_defaults", blanks)
	o.count("grammars_packed", 1)
	o.Nontrivial = len(L.GTable) >= 4
	o.Hash = hashOf(text)
	if idx == 2 {
		o.Sample = map[string]interface{}{"grammar": trunc(text, 400), "states": len(L.GTable), "packed_len": len(L.ActionTable), "cells_by_default": blanks}
	}
	return o
}

func init() { register(c05in{}) }

func (c05in) ID() string { return "C05" }
func (p c05in) NumCases(tier string) int {
	return p.matrixCases(tier) + p.grammarCases(tier) + tinyCases(tier)
}
func (c05in) Rule() string {
	return "three legs. (1) matrices: unpack(pack(m)) == m for every matrix with <=3x3 cells over {0,1,2} and <=2x5 over {0,1} (exhaustive), plus batches of 1000 random matrices up to 8x10 with density 5-90% and negative/large entries; (2) grammars built in-process: for every (state, symbol) the documented lookup through ActionTable/OffsetTable/CheckTable/ActionDef/GoToDef equals GTable[state][symbol]; (3) generated code (pipeline leg, see counters gen:*): packed and -u parsers of the same grammar have identical effective tables and identical verdict/reductions/value on every input; non-trivial = matrix batch, packed grammar with >= 4 states, or grammar whose two generated parsers were both run; distinct by matrix batch / grammar text"
}
func (c05in) Assumptions() []string {
	return []string{"Go bounds checks act as the memory sanitizer for the packing routine and the lookup"}
}
func (c05in) DiedIsViolation() bool      { return true }
func (c05in) MinNontrivial(t string) int { return 100 }
func (p c05in) Run(seed int64, tier string, idx int) Outcome {
	r := caseRng(seed, "C05", idx)
	if idx < p.matrixCases(tier) {
		return p.runMatrix(r, idx)
	}
	if k := idx - p.matrixCases(tier); k < p.grammarCases(tier) {
		return p.runGrammar(r, k)
	}
	return tinyBatch("C05", idx-p.matrixCases(tier)-p.grammarCases(tier), true, p.runGrammarOn)
}
