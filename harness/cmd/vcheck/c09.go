package main

import (
	"fmt"
	"sort"

	"verif/harness/spec"

	"verif/harness/ref"
	"verif/harness/render"
	"verif/harness/yx"
)

// C09: yaccgo's states are exactly the canonical LR(0) collection.
type c09 struct{}

func init() { register(c09{}) }

func (c09) ID() string { return "C09" }
func (c09) regularCases(tier string) int {
	if tier == "thorough" {
		return len(families) + 200000
	}
	return len(families) + 5000
}
func (p c09) NumCases(tier string) int               { return p.regularCases(tier) + tinyCases(tier) }
func (c09) Extra(tier string) map[string]interface{} { return tinyExtra(tier) }
func (c09) Rule() string {
	return "case = one grammar (curated families, then random grammars incl. nullable/recursive/cyclic/duplicate-rule shapes) built in-process by the real ParseAndBuild; its LR0Closure (item sets, GoTo, Index) is compared with a reference canonical LR(0) collection computed from yaccgo's own rule list; non-trivial = grammar accepted by yaccgo with >= 4 states; distinct by (rules, item sets) hash"
}
func (c09) Assumptions() []string {
	return []string{"reference LR(0) construction in harness/ref is correct (unit-tested on textbook grammars)", "rule list and symbol table read through exported fields of the Walker"}
}
func (c09) DiedIsViolation() bool      { return false }
func (c09) MinNontrivial(t string) int { return 200 }

func (c09) Run(seed int64, tier string, idx int) Outcome {
	p := c09{}
	reg := p.regularCases(tier)
	if idx >= reg {
		return tinyBatch("C09", idx-reg, true, p.runOn)
	}
	r := caseRng(seed, "C09", idx)
	cfg := stdCfg
	if idx%3 == 0 {
		cfg = bigCfg
	}
	g := pickGrammar(r, idx, true, cfg)
	return p.runOn(g, idx)
}

func (c09) runOn(g *spec.Grammar, idx int) Outcome {
	g.NoAction = true
	text := render.Render(g, plainParts, render.Options{})
	o := Outcome{Status: "held", Replay: map[string]interface{}{"grammar": text}}
	b := yx.Build(text, false)
	if !b.OK() {
		o.Status = "inconclusive"
		o.Detail = fmt.Sprintf("usable grammar not built: err=%v panic=%s", b.Err, b.Panic)
		return o
	}
	rg := yx.ToRef(b.Root)
	lr0 := ref.BuildLR0(rg, 1990)
	if lr0 == nil {
		o.Status = "skipped"
		return o
	}
	viol := checkLR0(b, lr0)
	n := len(b.Root.G.LR0.LR0Closure)
	o.count("states", n)
	o.count("grammars_built", 1)
	tr := 0
	for _, st := range lr0.States {
		tr += len(st.Trans)
	}
	o.count("transitions", tr)
	if viol != "" {
		o.Status = "violated"
		o.Detail = viol + "\ngrammar:\n" + text
		return o
	}
	o.Nontrivial = n >= 4
	o.Hash = hashOf(text)
	if idx < 3 || idx == len(families) {
		o.Sample = map[string]interface{}{"grammar": trunc(text, 600), "states": n, "transitions": tr}
	}
	return o
}

// checkLR0 compares yaccgo's collection with the reference; returns "" or a description.
func checkLR0(b *yx.Built, lr0 *ref.LR0) string {
	cl := b.Root.G.LR0.LR0Closure
	seen := map[string]int{}
	smap := make([]int, len(cl))
	for i, ic := range cl {
		if ic.Index != i {
			return fmt.Sprintf("state at position %d carries Index %d", i, ic.Index)
		}
		// items must be distinct
		its := yx.StateItems(b.Root, i)
		for k := 1; k < len(its); k++ {
			if its[k] == its[k-1] {
				return fmt.Sprintf("state %d lists an item twice", i)
			}
		}
		k := ref.ItemsKey(its)
		if j, dup := seen[k]; dup {
			return fmt.Sprintf("states %d and %d have the same item set (duplicate state)", j, i)
		}
		seen[k] = i
		rs, ok := lr0.Index[k]
		if !ok {
			return fmt.Sprintf("state %d is not a state of the canonical LR(0) collection (items %v)", i, describeItems(lr0.G, its))
		}
		smap[i] = rs
	}
	if smap[0] != 0 {
		return "state 0 is not the closure of the augmented start item"
	}
	if len(cl) != len(lr0.States) {
		miss := []string{}
		for k, rs := range lr0.Index {
			if _, ok := seen[k]; !ok {
				miss = append(miss, fmt.Sprint(describeItems(lr0.G, lr0.States[rs].Items)))
			}
		}
		sort.Strings(miss)
		return fmt.Sprintf("yaccgo has %d states, canonical collection has %d; missing: %v", len(cl), len(lr0.States), miss)
	}
	for i, ic := range cl {
		rs := lr0.States[smap[i]]
		got := map[int]int{}
		for _, gt := range ic.GoTo {
			if gt.Sym == nil {
				return fmt.Sprintf("state %d has a transition without symbol", i)
			}
			if _, dup := got[int(gt.Sym.ID)]; dup {
				return fmt.Sprintf("state %d has two transitions on %s", i, gt.Sym.Name)
			}
			got[int(gt.Sym.ID)] = gt.ItemCl
		}
		for s, to := range rs.Trans {
			yto, ok := got[s]
			if !ok {
				return fmt.Sprintf("state %d lacks the transition on %s", i, lr0.G.Names[s])
			}
			if yto < 0 || yto >= len(cl) || smap[yto] != to {
				return fmt.Sprintf("state %d on %s goes to state %d, which is not the closure of the advanced items", i, lr0.G.Names[s], yto)
			}
		}
		for s := range got {
			if _, ok := rs.Trans[s]; !ok {
				return fmt.Sprintf("state %d has a transition on %s although no item has it after the dot", i, lr0.G.Names[s])
			}
		}
	}
	return ""
}

func describeItems(g *ref.Grammar, items []int) []string {
	res := []string{}
	for _, it := range items {
		r := g.Rules[ref.ItemRule(it)]
		s := g.Names[r.Lhs] + " ->"
		for i, x := range r.Rhs {
			if i == ref.ItemDot(it) {
				s += " ."
			}
			s += " " + g.Names[x]
		}
		if ref.ItemDot(it) == len(r.Rhs) {
			s += " ."
		}
		res = append(res, s)
	}
	return res
}

// stateMap maps yaccgo state numbers to reference states (by item set); nil if the collections differ.
func stateMap(b *yx.Built, lr0 *ref.LR0) []int {
	cl := b.Root.G.LR0.LR0Closure
	smap := make([]int, len(cl))
	for i := range cl {
		rs, ok := lr0.Index[ref.ItemsKey(yx.StateItems(b.Root, i))]
		if !ok {
			return nil
		}
		smap[i] = rs
	}
	return smap
}
