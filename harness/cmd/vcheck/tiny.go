package main

import (
	"fmt"

	"verif/harness/gen"
	"verif/harness/spec"
)

// G-tiny: every grammar over nonterminals {S, A}, terminals {a, b} with 1..4
// distinct rules of right-hand-side length <= 2 (124313 grammars). The thorough
// tier of the in-process table properties enumerates this space completely.

const tinyBatchSize = 400

func tinyCases(tier string) int {
	if tier != "thorough" {
		return 0
	}
	return (gen.TinyCount() + tinyBatchSize - 1) / tinyBatchSize
}

func tinyExtra(tier string) map[string]interface{} {
	if tier != "thorough" {
		return nil
	}
	return map[string]interface{}{"exhaustive_subspace": fmt.Sprintf("G-tiny: all %d grammars over nonterminals {S,A}, terminals {a,b}, 1-4 distinct rules, rhs length <= 2 were enumerated (usable ones checked; see counters tiny:*)", gen.TinyCount())}
}

// tinyBatch runs one batch of G-tiny through a per-grammar check.
func tinyBatch(prop string, batch int, usableOnly bool, runOn func(g *spec.Grammar, idx int) Outcome) Outcome {
	o := Outcome{Status: "held", Hash: fmt.Sprintf("tiny-batch-%d", batch)}
	lo, hi := batch*tinyBatchSize, (batch+1)*tinyBatchSize
	if hi > gen.TinyCount() {
		hi = gen.TinyCount()
	}
	sub := 0
	for i := lo; i < hi; i++ {
		g := gen.Tiny(i)
		o.count("eval:tiny:grammars_enumerated", 1)
		if usableOnly && !gen.Usable(g) {
			o.count("tiny:unusable_skipped", 1)
			continue
		}
		r := runOn(g, -1)
		for k, v := range r.Counters {
			o.count("tiny:"+k, v)
		}
		switch r.Status {
		case "violated":
			r.Detail = fmt.Sprintf("(G-tiny grammar #%d) %s", i, r.Detail)
			r.Counters = o.Counters
			return r
		case "inconclusive":
			o.count("tiny:inconclusive", 1)
			if o.Detail == "" {
				o.Detail = r.Detail
			}
		default:
			if r.Nontrivial {
				sub++
			}
		}
	}
	o.Nontrivial = sub > 0
	o.Sub = sub
	return o
}
