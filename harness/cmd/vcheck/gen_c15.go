package main

import (
	"fmt"
	"math/rand"
	"strings"
	"time"

	"verif/harness/pipe"
	"verif/harness/spec"
)

// ---------------------------------------------------------------- C15

func sameResult(a, b pipe.Result, withLog bool) bool {
	if a.Verdict != b.Verdict || a.Value != b.Value {
		return false
	}
	if withLog && (fmt.Sprint(a.Log) != fmt.Sprint(b.Log) || a.Fetched != b.Fetched) {
		return false
	}
	return true
}

func c15Campaign(tier string, seed int64, only int, race bool) *campaign {
	n := tierN(tier, 30, 400)
	if race {
		n = tierN(tier, 10, 100)
	}
	cp := &campaign{Prop: "C15", Tier: tier, Seed: seed, Only: only, N: n, MaxStr: tierN(tier, 120, 300), NLong: 40, Race: race, BatchSize: 50}
	if race {
		cp.Prop = "C15-race"
		cp.MaxStr = 60
		cp.NLong = 15
	}
	cp.Variants = func(i int) []pipe.Variant {
		if race {
			return []pipe.Variant{pipe.VGoO, pipe.VGoOU}
		}
		if i%5 == 2 {
			return pipe.GoVariants // accumulating actions (see Make): Go only
		}
		return pipe.AllVariants
	}
	cp.Make = func(r *rand.Rand, i int) *spec.Grammar {
		g := mixedGrammar(r, i+3)
		if i%5 == 2 {
			// every second action adds to $$ instead of overwriting it: each reduction must start
			// with a fresh $$, also on a re-initialised context and after a rejected input
			for k := range g.Rules {
				if k%2 == 0 {
					g.Rules[k].Act.Accum = true
				}
			}
		}
		if i%3 == 1 {
			// nonterminals without a value tag (every second one, never the start symbol): their
			// reductions carry no value, which is where generated code is tempted to share storage
			for n := range g.NTs {
				if n != g.Start && n%2 == 1 {
					g.NTs[n].Tag = ""
				}
			}
			for k := range g.Rules {
				g.Rules[k].Act = spec.Act{}
			}
			g.DefaultActs()
		}
		return g
	}
	cp.Configure = func(c *gcase) {
		r := caseRng(seed, "C15-orders", c.Idx)
		n := len(c.Inputs)
		id := make([]int, n)
		rev := make([]int, n)
		for i := range id {
			id[i] = i
			rev[i] = n - 1 - i
		}
		c.Job.Req.Orders = [][]int{id, rev, r.Perm(n)}
		obj := c.Job.Req
		obj.Mode = "c15"
		obj.Workers = 16
		obj.Rounds = 2
		if race {
			obj.Rounds = 5
		}
		c.Job.ReqFor = map[pipe.Variant]*pipe.Request{pipe.VGoO: &obj, pipe.VGoOU: &obj, pipe.VGo: &obj, pipe.VGoU: &obj}
	}
	cp.Judge = func(c *gcase, o *Outcome) {
		sub := 0
		for _, v := range c.live() {
			out := c.Outs[v]
			res := out.Resp.Results
			base := res[0]
			fail := func(leg string, k int, got pipe.Result) {
				o.Status = "violated"
				o.Detail = fmt.Sprintf("result of a parse depends on its history (%s): verdict %s value %q log %v, alone/first-order result below\n%s", leg, got.Verdict, trunc(got.Value, 200), got.Log, describeCase(c, v, k))
			}
			if race {
				o.count("eval:race_runs", 1)
				nrace := strings.Count(out.RaceLog, "WARNING: DATA RACE")
				o.count("race_reports", nrace)
				if nrace > 0 {
					if strings.Contains(out.RaceLog, "/parser.go") {
						o.Status = "violated"
						o.Detail = fmt.Sprintf("race detector: %d reports with stacks in generated code while parsers on distinct contexts ran concurrently (variant %s)\n%s\ngrammar:\n%s", nrace, v, trunc(out.RaceLog, 3000), c.Job.Text[v])
					} else {
						o.Status = "inconclusive"
						o.Detail = "race reports only inside the harness driver: " + trunc(out.RaceLog, 1500)
					}
					return
				}
			}
			if v.IsTS() {
				for li := 1; li < len(res); li++ {
					for k := range c.Inputs {
						o.count("eval:order_comparisons", 1)
						if !sameResult(res[li][k], base[k], true) {
							fail(fmt.Sprintf("order %d, initialize() before each parse", li), k, res[li][k])
							return
						}
					}
				}
				o.count("histories_run:"+string(v), len(res))
			} else {
				// legs per Notes
				pos := 0
				for _, note := range out.Resp.Notes {
					var leg string
					var cnt int
					if i := strings.Index(note, ":"); i > 0 {
						leg = note[:i]
						fmt.Sscan(note[i+1:], &cnt)
					}
					lists := res[pos : pos+cnt]
					pos += cnt
					switch leg {
					case "fresh", "reuse", "orders":
						for li, l := range lists {
							for k := range c.Inputs {
								o.count("eval:order_comparisons", 1)
								if !sameResult(l[k], base[k], true) {
									fail(fmt.Sprintf("%s context, order %d", leg, li), k, l[k])
									return
								}
							}
						}
						o.count("histories_run:"+string(v)+":"+leg, len(lists))
					case "nested":
						if len(lists) != 2 {
							continue
						}
						for k := range c.Inputs {
							o.count("eval:nested_outer_parses", 1)
							g := lists[0][k]
							if strings.HasPrefix(g.Verdict, "DIFFERS") || !sameResult(g, base[k], true) {
								fail("a complete second parse (own context / PushContex-PopContex) ran inside GetToken (at >= 0: token index) or inside an action (at < 0: reduction number) ("+g.Msg+")", k, g)
								return
							}
						}
						for _, in := range lists[1] {
							i := strings.Index(in.Msg, "|")
							var k int
							fmt.Sscan(in.Msg[:i], &k)
							o.count("eval:nested_inner_parses", 1)
							if !sameResult(in, base[k], false) {
								fail("inner parse on a second context, started from inside the first context's GetToken", k, in)
								return
							}
						}
					case "concurrent":
						for _, l := range lists {
							for _, g := range l {
								// the driver reports the case number in Fetched (the case text itself may
								// contain any byte, also the separator of Msg)
								k := g.Fetched
								if k < 0 || k >= len(base) {
									o.Status = "inconclusive"
									o.Detail = "concurrent leg: result without a case number"
									return
								}
								o.count("eval:concurrent_parses", 1)
								if !sameResult(g, base[k], false) {
									fail(fmt.Sprintf("%d goroutines on distinct contexts with injected yields", len(lists)), k, g)
									return
								}
							}
						}
						o.count("concurrent_goroutines", len(lists))
					}
				}
			}
			if v == c.live()[0] {
				for k := range c.Inputs {
					if len(base[k].Log) >= 1 {
						sub++
					}
				}
			}
		}
		mixed := 0
		v0 := c.live()[0]
		acc, rej := 0, 0
		for k := range c.Inputs {
			if c.result(v0, k).Verdict == "accept" {
				acc++
			} else {
				rej++
			}
		}
		if acc > 0 && rej > 0 {
			mixed = 1
		}
		o.count("grammars_with_mixed_accept_reject_histories", mixed)
		o.Nontrivial = sub > 0 && mixed == 1
		o.Sub = sub
		o.Hash = hashOf(cp.Prop, specJSON(c.G))
		if c.Idx == 2 {
			o.Sample = map[string]interface{}{"grammar": trunc(c.Job.Text[v0], 400), "inputs": len(c.Inputs), "accepted": acc, "rejected": rej, "orders": 3, "object_legs": c.Outs[pipe.VGoO].Resp.Notes}
		}
	}
	return cp
}

func init() {
	pipelineProps["C15"] = func(tier string, seed int64, only int, start time.Time) int {
		var outs []Outcome
		if only < pipeIdxBase {
			outs = c15Campaign(tier, seed, only, false).run()
		}
		if only < 0 || only >= pipeIdxBase {
			o2 := only
			if o2 >= 0 {
				o2 -= pipeIdxBase
			}
			for _, o := range c15Campaign(tier, seed, o2, true).run() {
				o.Idx += pipeIdxBase
				outs = append(outs, o)
			}
		}
		return finishPipeline("C15", tier, seed, only, start, outs,
			"history monitor: case = one grammar in all five variants; a list of inputs mixing sentences and non-sentences (rejected ones leave the stack in an arbitrary state) is executed in one process in three orders (as listed, reversed, seed-determined shuffle), each parse preceded by ParserInit() (global form), initialize() (TypeScript), on a fresh MakeParserContext() and on one reused context after c.ParserInit() (-o); every input must give the same verdict, reduction log, value and tokens-fetched count in every order. interleaving monitor (-o): (1) nesting — while context A parses, a complete parse on context B runs inside A's GetToken at every token index; both must equal their alone results; (2) 16 goroutines, each with its own contexts (fresh and re-initialised), parse all inputs repeatedly with runtime.Gosched() injected in GetToken and in every action; results must equal the sequential ones; (3) the same concurrent workload built with -race, GORACE=halt_on_error=0 log_path=..., report blocks counted: any report with a stack in generated code is a violation; non-trivial = (grammar, input) with >= 1 reduction in a grammar whose history mixes accepted and rejected inputs",
			append(genAssumptions, "the concurrent legs keep no shared mutable state in the driver: the reduction log lives in the value string"), 200, nil)
	}
}
