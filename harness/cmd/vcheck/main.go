// vcheck: runtime-monitoring checks for acekingke/yaccgo (see /verif/DESIGN.md).
package main

import (
	"fmt"
	"os"
	"strconv"
	"time"
)

func usage() {
	fmt.Fprintln(os.Stderr, "usage: vcheck run <ID> <quick|thorough> | vcheck replay <ID> <tier> <seed> <idx> | vcheck worker ...")
	os.Exit(64)
}

func main() {
	if len(os.Args) < 2 {
		usage()
	}
	switch os.Args[1] {
	case "worker":
		workerMain(os.Args[2:])
	case "run":
		if len(os.Args) < 4 {
			usage()
		}
		os.Exit(runCheck(os.Args[2], os.Args[3], -1))
	case "replay":
		if len(os.Args) < 6 {
			usage()
		}
		os.Setenv("VERIF_SEED", os.Args[4])
		idx, _ := strconv.Atoi(os.Args[5])
		os.Exit(runCheck(os.Args[2], os.Args[3], idx))
	default:
		usage()
	}
}

func scratchDir() string {
	if v := os.Getenv("VERIF_SCRATCH"); v != "" {
		return v
	}
	d, err := os.MkdirTemp("", "vcheck")
	if err != nil {
		panic(err)
	}
	return d
}

func runCheck(id, tier string, only int) int {
	seed := int64(envInt("VERIF_SEED", 1))
	start := time.Now()
	if p, ok := inprocProps[id]; ok {
		var res runResult
		if only < pipeIdxBase {
			res = runInproc(p, tier, seed, scratchDir(), only)
		}
		if leg, ok := pipelineLegs[id]; ok && (only < 0 || only >= pipeIdxBase) {
			o2 := only
			if o2 >= pipeIdxBase {
				o2 -= pipeIdxBase
			}
			for _, o := range leg(tier, seed, o2) {
				o.Idx += pipeIdxBase
				res.outcomes = append(res.outcomes, o)
			}
		}
		if id == "C13" && tier == "thorough" && only < 0 && os.Getenv("VERIF_RACE_BIN") != "" {
			res.outcomes = append(res.outcomes, c13RaceLeg(p, seed)...)
		}
		rep := &Report{Prop: id, Tier: tier, Seed: seed, Outcomes: res.outcomes, Rule: p.Rule(),
			Assumptions: p.Assumptions(), MinNontrivial: p.MinNontrivial(tier), DiedIsViolation: p.DiedIsViolation(), Start: start,
			Extra: map[string]interface{}{"worker_restarts": res.restarts}}
		if only >= 0 {
			rep.MinNontrivial = 0
		}
		if c, ok := p.(interface{ Classify(o *Outcome) }); ok {
			rep.Classify = c.Classify
		}
		if e, ok := p.(interface {
			Extra(tier string) map[string]interface{}
		}); ok {
			for k, v := range e.Extra(tier) {
				rep.Extra[k] = v
			}
		}
		return rep.Finish()
	}
	if f, ok := pipelineProps[id]; ok {
		return f(tier, seed, only, start)
	}
	fmt.Fprintf(os.Stderr, "unknown property %s\n", id)
	return 64
}

var pipelineProps = map[string]func(tier string, seed int64, only int, start time.Time) int{}
