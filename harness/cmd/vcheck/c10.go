package main

import (
	"fmt"
	"math/rand"
	"os"
	"path/filepath"
	"strings"
	"time"

	builder "github.com/acekingke/yaccgo/Builder"
	utils "github.com/acekingke/yaccgo/Utils"

	"verif/harness/gen"
	"verif/harness/render"
	"verif/harness/spec"
	"verif/harness/yx"
)

// C10: the grammar file is read faithfully, whatever its layout.
type c10 struct{}

func init() { register(c10{}) }

func (c10) ID() string { return "C10" }
func (c10) renderings(tier string) int {
	if tier == "thorough" {
		return 16
	}
	return 8
}
func (c10) regularCases(tier string) int {
	if tier == "thorough" {
		return 30000
	}
	return 1500
}
func (c10) cliCases(tier string) int {
	if tier == "thorough" {
		return 400
	}
	return 32
}
func (p c10) NumCases(tier string) int { return p.regularCases(tier) + p.cliCases(tier) }
func (c10) Rule() string {
	return "case = one abstract specification (random: explicit token numbers, literals incl. quote/brace/percent characters, tags, tokens declared by %token / only on a precedence line / only used in rules, %prec, non-first start symbol, empty alternatives, hostile brace-balanced action bodies with comments) rendered 8 (quick) or 16 (thorough) times with random layout (blanks, tabs, newlines, // and /* */ comments with hostile bodies between any two tokens, optional ';', '|' or repeated lhs, reordered declaration lines, %union brace on the next line, second %% omitted when the epilogue is empty); each rendering is parsed by the real ParseAndBuild and the extracted grammar (rule order, lhs, rhs, %prec symbol, action text byte for byte, start symbol, token numbers, tags, precedence order and associativity, prologue / %union / epilogue text) is compared with the specification, and with the extraction of the canonical rendering (metamorphic leg); for a sample the Go and TypeScript generators are run in-process and the output file must contain prologue and union text, every action under its own case label, and end with exactly the epilogue; non-trivial = rendering that contains at least one comment and one omitted ';'; distinct by rendering text"
}
func (c10) Assumptions() []string {
	return []string{"layout inside %union{...}, %{...%} and {action} bodies is not varied (each is one token); comment bodies never contain */; CR/LF and form feeds are not generated", "a character literal directly after a token name on a %token line is alias syntax and is not generated"}
}
func (c10) DiedIsViolation() bool      { return true }
func (c10) MinNontrivial(t string) int { return 500 }

var hostileActionBits = []string{"/* a|b; %% */", "if x { y() }", "// c: d %token\n", "s := \"q: r | t ;\"", "{ { } }", "/**/", "/** doc **/", "x = '|'", "%prec", "%%", "for { break }", "a : b ;", "/* {} */", "/* 加减法 — é */", "s = \"ünï\"", "s = \"C:\\\\\"", "x = '\\\\'", "s = \"a\\\"b\"", "// don't\n", "/* it's 5\" wide */", "/* ` */"}

func hostileAction(r *rand.Rand, k int) string {
	var sb strings.Builder
	sb.WriteString("{")
	n := r.Intn(4)
	for i := 0; i < n; i++ {
		sb.WriteString(" " + hostileActionBits[r.Intn(len(hostileActionBits))] + " ")
	}
	fmt.Fprintf(&sb, " verifM(%d) ", k)
	if r.Intn(2) == 0 {
		sb.WriteString(hostileActionBits[r.Intn(len(hostileActionBits))] + " ")
	}
	sb.WriteString("}")
	return sb.String()
}

type extraction struct {
	rules   []string
	start   string
	symbols map[string]string // name -> "value/tag"
	gtable  string
}

// runCLI: the file given to the real binary must be read exactly like the text given to the library:
// the output of `yaccgo generate` must be byte-identical to the in-process generation from the same
// text. Layouts include "minified" grammars whose rule section is one physical line of many kilobytes.
func (c10) runCLI(seed int64, idx int) Outcome {
	r := caseRng(seed, "C10-cli", idx)
	o := Outcome{Status: "held"}
	var g *spec.Grammar
	if idx%2 == 0 {
		g = gen.Big(r)
		for k := range g.Rules {
			// long action texts make the single line exceed any reasonable I/O buffer
			g.Rules[k].Act.Raw = "/* " + strings.Repeat(fmt.Sprintf("rule %d padding ", k), 4+r.Intn(8)) + "*/"
		}
	} else {
		g = gen.Rich(r, gen.RichCfg{Names: true, IntTags: true, LongRhs: true})
	}
	parts := render.Parts{Prologue: "package p\nimport \"fmt\"", Union: plainParts.Union, Epilogue: "\nfunc GetToken() int { return -1 }\n"}
	var ro render.Options
	switch idx % 4 {
	case 0:
		ro.OneLineRules = true
	case 1:
		ro.Rng = rand.New(rand.NewSource(r.Int63()))
	case 2:
		ro.OneLineRules = true
		parts.Epilogue = "\n// " + strings.Repeat("a very long epilogue line ", 400) + "\n"
	}
	text := render.Render(g, parts, ro)
	maxLine := 0
	for _, ln := range strings.Split(text, "\n") {
		if len(ln) > maxLine {
			maxLine = len(ln)
		}
	}
	dir := filepath.Join(scratch(), fmt.Sprintf("c10cli-%d-%d", os.Getpid(), idx))
	os.MkdirAll(dir, 0755)
	defer os.RemoveAll(dir)
	os.WriteFile(filepath.Join(dir, "g.y"), []byte(text), 0644)
	o.Replay = map[string]interface{}{"grammar": text}
	for vi, variant := range [][]string{{"go"}, {"go", "-o", "-u"}, {"typescript"}} {
		if (idx+vi)%3 == 2 && vi > 0 {
			continue
		}
		args := append(append([]string{"generate"}, variant...), "g.y", "cli.out")
		res := runCLI(30, 2*time.Minute, dir, args...)
		cliOut, err := os.ReadFile(filepath.Join(dir, "cli.out"))
		os.Remove(filepath.Join(dir, "cli.out"))
		o.count("eval:cli:generations", 1)
		inOut := filepath.Join(dir, "inproc.out")
		var gerr error
		var pan interface{}
		yx.CaptureStdout(func() {
			defer func() { pan = recover() }()
			utils.PackFlags, utils.ObjectMode = true, false
			for _, f := range variant[1:] {
				if f == "-u" {
					utils.PackFlags = false
				}
				if f == "-o" {
					utils.ObjectMode = true
				}
			}
			if variant[0] == "go" {
				gerr = builder.TemplateGenFromString(text, inOut)
			} else {
				gerr = builder.TsGenFromString(text, inOut)
			}
		})
		utils.PackFlags, utils.ObjectMode = true, false
		want, _ := os.ReadFile(inOut)
		os.Remove(inOut)
		if gerr != nil || pan != nil {
			o.Status = "inconclusive"
			o.Detail = fmt.Sprintf("in-process generation failed: %v %v", gerr, pan)
			return o
		}
		if res.TimedOut || res.Signal != "" {
			o.Status = "inconclusive"
			o.Detail = fmt.Sprintf("CLI run ended by a resource limit (timed out %v, signal %q, %.1f CPU-s)", res.TimedOut, res.Signal, res.CPU)
			return o
		}
		if res.Exit != 0 || err != nil {
			o.Status = "violated"
			o.Detail = fmt.Sprintf("the library accepts this text but `yaccgo generate %v` on a file with the same bytes fails (exit %d): %s\nlongest line: %d bytes", variant, res.Exit, trunc(res.Out, 400), maxLine)
			return o
		}
		if string(cliOut) != string(want) {
			o.Status = "violated"
			o.Detail = fmt.Sprintf("`yaccgo generate %v` on the file and generation from the same text in-process give different output (the file is not read faithfully); longest line %d bytes; %s", variant, maxLine, firstDiff(string(want), string(cliOut)))
			return o
		}
	}
	if maxLine > 4096 {
		o.count("cli:files_with_a_line_longer_than_4096_bytes", 1)
	}
	if maxLine > 65536 {
		o.count("cli:files_with_a_line_longer_than_65536_bytes", 1)
	}
	o.Nontrivial = true
	o.Hash = hashOf("cli", text)
	return o
}

func (p c10) Run(seed int64, tier string, idx int) Outcome {
	if reg := p.regularCases(tier); idx >= reg {
		return p.runCLI(seed, idx-reg)
	}
	r := caseRng(seed, "C10", idx)
	g := gen.Rich(r, gen.RichCfg{Names: idx%2 == 0, IntTags: true, LongRhs: idx%5 == 0, EOFAlias: true})
	actions := make([]string, len(g.Rules))
	for k := range actions {
		if r.Intn(6) == 0 {
			actions[k] = "" // rule without action
		} else {
			actions[k] = hostileAction(r, k)
		}
	}
	parts := render.Parts{
		Prologue: "package p\n// prologue { with } braces %% and 'quotes' — ünïcödé 加\nimport \"fmt\"",
		Union:    "\n\ts string // first ½\n\tt string\n\tn int /* { nested } */\n\tm int\n",
		Epilogue: "\n// epilogue %% { } : | ; 終\nfunc GetToken() {}\n",
	}
	if idx%4 == 1 {
		parts.Epilogue = ""
	}
	if idx%3 != 0 {
		parts.Prologue2 = "var second = 2 // second block; 第二"
	}
	o := Outcome{Status: "held"}
	var canon *extraction
	nr := c10{}.renderings(tier)
	for v := 0; v < nr; v++ {
		opts := render.Options{ActionOf: func(k int) string { return actions[k] }}
		if v > 0 {
			opts.Rng = rand.New(rand.NewSource(r.Int63()))
			opts.NoSecondMarker = parts.Epilogue == "" && v%2 == 0
		}
		text := render.Render(g, parts, opts)
		o.Replay = map[string]interface{}{"rendering": text, "spec": g}
		b := yx.Build(text, false)
		o.count("eval:renderings", 1)
		if !b.OK() {
			o.Status = "violated"
			o.Detail = fmt.Sprintf("rendering %d of a usable specification is refused: err=%v panic=%s\n--- text:\n%s", v, b.Err, trunc(b.Panic, 300), text)
			return o
		}
		ex, msg := extractAndCompare(g, parts, actions, b)
		if msg != "" {
			o.Status = "violated"
			o.Detail = fmt.Sprintf("rendering %d: %s\n--- text:\n%s", v, msg, text)
			return o
		}
		if canon == nil {
			canon = ex
		} else if msg := diffExtraction(canon, ex); msg != "" {
			o.Status = "violated"
			o.Detail = fmt.Sprintf("rendering %d extracts differently from the canonical rendering: %s\n--- text:\n%s", v, msg, text)
			return o
		}
		if v > 0 {
			hasComment := strings.Contains(text, "/*") || strings.Contains(text, "//")
			if hasComment {
				o.count("renderings_with_comments", 1)
			}
		}
		// sample: run the generators in-process and look at the output file
		if v == 1 && idx%4 == 0 {
			if msg := checkGeneratedFile(g, parts, actions, text, idx); msg != "" {
				o.Status = "violated"
				o.Detail = msg + "\n--- text:\n" + text
				return o
			}
			o.count("generated_files_inspected", 2)
		}
		if v == 1 {
			o.Hash = hashOf(text)
			if idx < 2 {
				o.Sample = map[string]interface{}{"rendering": trunc(text, 900), "rules": len(g.Rules)}
			}
		}
	}
	o.Nontrivial = true
	o.count("specs", 1)
	o.count("rules_compared", len(g.Rules)*nr)
	return o
}

func extractAndCompare(g *spec.Grammar, parts render.Parts, actions []string, b *yx.Built) (*extraction, string) {
	G := b.Root.G
	ex := &extraction{symbols: map[string]string{}}
	if len(G.ProductoinRules) != len(g.Rules)+1 {
		return nil, fmt.Sprintf("file has %d rules, yaccgo extracted %d", len(g.Rules), len(G.ProductoinRules)-1)
	}
	lv, _ := g.TokPrec()
	for k, ru := range g.Rules {
		pr := G.ProductoinRules[k+1]
		or := b.Root.GetRules(k)
		want := g.NTs[ru.Lhs].Name + " :"
		for _, s := range ru.Rhs {
			want += " " + g.SymName(s)
		}
		got := pr.LeftPart.Name + " :"
		for _, s := range pr.RighPart {
			got += " " + s.Name
		}
		if got != want {
			return nil, fmt.Sprintf("rule %d is %q in the file, extracted as %q", k, want, got)
		}
		got2 := or.LeftPart.Name + " :"
		for _, s := range or.RighPart {
			got2 += " " + s.Name
		}
		if got2 != want {
			return nil, fmt.Sprintf("rule %d is %q in the file, the code generator sees %q", k, want, got2)
		}
		if or.ActionCode != actions[k] {
			return nil, fmt.Sprintf("action of rule %d is %q in the file, extracted as %q", k, actions[k], or.ActionCode)
		}
		// %prec annotation / rule precedence
		wantP := ""
		if pt := g.RulePrecTok(k); pt >= 0 && lv[pt] != 0 {
			wantP = g.Tokens[pt].YName()
		}
		gotP := ""
		if or.PrecIdSym != nil {
			gotP = or.PrecIdSym.Id.Name
		}
		if gotP != wantP {
			return nil, fmt.Sprintf("rule %d takes precedence from %q, file says %q", k, gotP, wantP)
		}
		ex.rules = append(ex.rules, got+" "+or.ActionCode+" %prec "+gotP)
	}
	if len(G.ProductoinRules[0].RighPart) != 1 || G.ProductoinRules[0].RighPart[0].Name != g.NTs[g.Start].Name {
		return nil, fmt.Sprintf("start symbol is %s in the file", g.NTs[g.Start].Name)
	}
	ex.start = G.ProductoinRules[0].RighPart[0].Name
	if msg := checkPrecAssignment(g, b); msg != "" {
		return nil, msg
	}
	aliases := 0
	for i, t := range g.Tokens {
		if t.IsEOFAlias() {
			aliases++
			id := b.Root.GetIdsymtabl()[t.Name]
			if id == nil || id.Value != -1 {
				return nil, "end-marker alias " + t.Name + " lost its number -1"
			}
			continue
		}
		sy := G.SymbolsMap[t.YName()]
		if sy == nil {
			return nil, "token " + t.Src() + " missing"
		}
		if sy.IsNonTerminator {
			return nil, "token " + t.Src() + " became a nonterminal"
		}
		if t.Name == "" && sy.Value != t.Lit {
			return nil, fmt.Sprintf("literal %s has code %d, expected %d", t.Src(), sy.Value, t.Lit)
		}
		if t.Num != 0 && sy.Value != t.Num {
			return nil, fmt.Sprintf("token %s declared with number %d has code %d", t.Name, t.Num, sy.Value)
		}
		if sy.Tag != t.Tag {
			return nil, fmt.Sprintf("token %s declared with tag %q has tag %q", t.Src(), t.Tag, sy.Tag)
		}
		_ = i
	}
	for _, nt := range g.NTs {
		sy := G.SymbolsMap[nt.Name]
		if sy == nil || !sy.IsNonTerminator {
			return nil, "nonterminal " + nt.Name + " missing"
		}
		if sy.Tag != nt.Tag {
			return nil, fmt.Sprintf("nonterminal %s declared with tag %q has tag %q", nt.Name, nt.Tag, sy.Tag)
		}
	}
	if len(G.Symbols) != len(g.Tokens)-aliases+len(g.NTs)+2 {
		return nil, fmt.Sprintf("symbol table has %d entries, specification has %d tokens and %d nonterminals", len(G.Symbols), len(g.Tokens), len(g.NTs))
	}
	for _, sy := range G.Symbols {
		ex.symbols[sy.Name] = fmt.Sprintf("%d/%s/%d/%d", sy.Value, sy.Tag, sy.Prec, sy.PrecType)
	}
	wantCode := "\n" + parts.Prologue + "\n"
	if parts.Prologue2 != "" {
		wantCode += "\n" + parts.Prologue2 + "\n"
	}
	if got := b.Root.GetCode(); got != wantCode {
		return nil, fmt.Sprintf("prologue blocks extracted as %q, file has %q", got, wantCode)
	}
	if got := b.Root.GetUion(); got != parts.Union {
		return nil, fmt.Sprintf("%%union body extracted as %q, file has %q", got, parts.Union)
	}
	if got := b.Root.GetCodeCopy(); got != parts.Epilogue {
		return nil, fmt.Sprintf("epilogue extracted as %q, file has %q", trunc(got, 200), parts.Epilogue)
	}
	ex.gtable = fmt.Sprint(b.Root.GTable)
	return ex, ""
}

func diffExtraction(a, b *extraction) string {
	if strings.Join(a.rules, "\n") != strings.Join(b.rules, "\n") {
		return "rule lists differ"
	}
	if a.start != b.start {
		return "start symbols differ"
	}
	if len(a.symbols) != len(b.symbols) {
		return "symbol tables differ in size"
	}
	for k, v := range a.symbols {
		if b.symbols[k] != v {
			return fmt.Sprintf("symbol %s: %s vs %s", k, v, b.symbols[k])
		}
	}
	if a.gtable != b.gtable {
		return "parse tables differ"
	}
	return ""
}

// checkGeneratedFile runs both generators in-process on text and inspects the files.
func checkGeneratedFile(g *spec.Grammar, parts render.Parts, actions []string, text string, idx int) string {
	dir := os.Getenv("VERIF_SCRATCH")
	if dir == "" {
		dir = os.TempDir()
	}
	for _, lang := range []string{"go", "ts"} {
		path := filepath.Join(dir, fmt.Sprintf("c10-%d-%d.%s", os.Getpid(), idx, lang))
		var err error
		var pan interface{}
		yx.CaptureStdout(func() {
			defer func() { pan = recover() }()
			utils.PackFlags = idx%8 == 0
			utils.ObjectMode = idx%16 == 4
			if lang == "go" {
				err = builder.TemplateGenFromString(text, path)
			} else {
				err = builder.TsGenFromString(text, path)
			}
		})
		utils.PackFlags, utils.ObjectMode = true, false
		if err != nil || pan != nil {
			os.Remove(path)
			// actions contain text that is not resolvable ($-free, so generation itself must succeed)
			return fmt.Sprintf("%s generation failed on a usable specification: err=%v panic=%v", lang, err, pan)
		}
		ob, _ := os.ReadFile(path)
		os.Remove(path)
		out := string(ob)
		if !strings.HasSuffix(out, parts.Epilogue) {
			return fmt.Sprintf("%s output does not end with the epilogue (tail %q)", lang, trunc(out[max(0, len(out)-120):], 120))
		}
		wantCode := "\n" + parts.Prologue + "\n"
		if parts.Prologue2 != "" {
			wantCode += "\n" + parts.Prologue2 + "\n"
		}
		if !strings.Contains(out, wantCode) {
			return lang + " output does not contain the prologue block(s) verbatim"
		}
		if !strings.Contains(out, parts.Union) {
			return lang + " output does not contain the %union body verbatim"
		}
		// each action sits under its own case label, in rule order
		pos := 0
		for k := range g.Rules {
			label := fmt.Sprintf("case %d:", k+1)
			i := strings.Index(out[pos:], label)
			if i < 0 {
				return fmt.Sprintf("%s output has no %q after rule %d", lang, label, k)
			}
			pos += i + len(label)
			if actions[k] == "" {
				continue
			}
			next := strings.Index(out[pos:], fmt.Sprintf("case %d:", k+2))
			seg := out[pos:]
			if next >= 0 && k+1 < len(g.Rules) {
				seg = out[pos : pos+next]
			}
			// the action text appears twice: once in the rule comment (with */ defused), once as code
			if !strings.Contains(seg, actions[k]+"\n") {
				return fmt.Sprintf("%s output: action of rule %d is not under case %d verbatim", lang, k, k+1)
			}
		}
	}
	return ""
}

func max(a, b int) int {
	if a > b {
		return a
	}
	return b
}
