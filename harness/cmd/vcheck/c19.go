package main

import (
	"fmt"
	"math/rand"
	"os"
	"os/exec"
	"path/filepath"
	"regexp"
	"strings"
	"syscall"
	"time"

	"verif/harness/gen"
	"verif/harness/render"
	"verif/harness/spec"
)

// C19: a failed generation never damages an existing output file.
type c19 struct{}

func init() { register(c19{}) }

func (c19) ID() string { return "C19" }

var c19Variants = [][]string{{"go"}, {"go", "-o"}, {"go", "-u"}, {"typescript"}, {"go", "-d"}, {"go", "-o", "-u", "-g", "graph.png"}}

var c19Kinds = []string{
	"lexical: bad character", "lexical: unterminated comment", "lexical: unterminated action", "lexical: unterminated %union",
	"lexical: unterminated %{", "lexical: bad character literal", "syntax: missing %%", "syntax: junk between rules",
	"syntax: %prec without symbol", "semantic: undefined symbol", "semantic: %type'd nonterminal without rule", "semantic: unproductive nonterminal",
	"action: $n beyond the rule's length", "action: $0", "action: $n beyond the rule's length, in the last rule, after a rule without action", "success",
}

func (c19) kindCases() int { return len(c19Kinds) * len(c19Variants) * 5 }
func (p c19) prefixCases(tier string) int {
	if tier == "thorough" {
		return 400
	}
	return 40
}
func (p c19) NumCases(tier string) int { return p.kindCases() + p.prefixCases(tier) }
func (c19) Rule() string {
	return "case = (failure kind, option set, one of 3 base specifications, and base 0 twice more as a grammar file of 70-180 KiB: once with comment lines before the first %% and in the epilogue, once with a long epilogue only) with 15 input-caused failure kinds (bad character, unterminated comment / action / %union / %{, bad character literal, missing %%, junk between rules, %prec without symbol, undefined symbol, %type'd nonterminal without rule, unproductive nonterminal, $n beyond the rule's length - in the first rule and in the last rule behind a rule without action -, $0) plus a success kind, x {go, go -o, go -u, typescript}; the real CLI is run in its own process with the output path pre-existing (4 KB sentinel, fixed old mtime); when yaccgo reports failure (non-zero exit or panic) the file must have the same bytes, inode and mtime, and under strace -f no write-mode open, truncate, rename or unlink may name that path; when it reports success the file must contain a case label per rule and end with exactly the epilogue; prefix cases: 25 prefixes each of rendered specifications (most are failures, some are complete files) judged by the same rule; non-trivial = run in which yaccgo reported failure with the sentinel in place; distinct by (input text, option set)"
}
func (c19) Assumptions() []string {
	return []string{"output I/O failures (ENOSPC etc.) are outside the property's quantifier", "strace leg is skipped (and said so in the counters) if strace is unavailable"}
}
func (c19) DiedIsViolation() bool      { return false }
func (c19) MinNontrivial(t string) int { return 100 }

var c19Parts = render.Parts{Prologue: "package p\nimport \"fmt\"", Union: "\n\ts string\n\tt string\n\tn int\n\tm int\n", Epilogue: "\nfunc GetToken() int { return -1 }\n// last line of the epilogue\n"}

func c19Base(k int) *spec.Grammar {
	r := rand.New(rand.NewSource(int64(7700 + k)))
	for {
		g := gen.Rich(r, gen.RichCfg{IntTags: true})
		// need a rule with >= 1 tagged rhs symbol and a tagged lhs so that $n actions can be written
		if g.NTs[g.Start].Tag != "" && len(g.Rules) >= 3 {
			return g
		}
	}
}

// breakText applies the failure kind to the canonical rendering.
func breakText(kind string, g *spec.Grammar, text string) string {
	i2 := strings.Index(text, "\n%%\n") // first marker
	decl, rest := text[:i2+1], text[i2+1:]
	firstRuleEnd := strings.Index(rest[3:], ";\n") + 3
	switch kind {
	case "lexical: bad character":
		return decl + "# oops\n" + rest
	case "lexical: unterminated comment":
		return decl + "/* never closed\n" + rest
	case "lexical: unterminated action":
		return decl + rest[:firstRuleEnd] + " { verifR(0) " + rest[firstRuleEnd:]
	case "lexical: unterminated %union":
		return strings.Replace(text, "\tm int\n}", "\tm int\n", 1)
	case "lexical: unterminated %{":
		return strings.Replace(text, "\n%}", "\n", 1)
	case "lexical: bad character literal":
		return decl + rest[:firstRuleEnd] + " 'ab' " + rest[firstRuleEnd:]
	case "syntax: missing %%":
		return decl + rest[3:]
	case "syntax: junk between rules":
		return decl + rest[:firstRuleEnd+1] + " : | : " + rest[firstRuleEnd+1:]
	case "syntax: %prec without symbol":
		return decl + rest[:firstRuleEnd] + " %prec " + rest[firstRuleEnd:]
	case "semantic: undefined symbol":
		return decl + rest[:firstRuleEnd] + " NoSuchSymbol " + rest[firstRuleEnd:]
	case "semantic: %type'd nonterminal without rule":
		return "%type <s> Orphan\n" + text
	case "semantic: unproductive nonterminal":
		return decl + rest[:firstRuleEnd] + " Loop " + rest[firstRuleEnd:firstRuleEnd+1] + "\nLoop : Loop " + g.Tokens[0].Src() + " ;\n" + rest[firstRuleEnd+1:]
	case "action: $n beyond the rule's length":
		return decl + rest[:firstRuleEnd] + " { $$ = $9 } " + rest[firstRuleEnd:]
	case "action: $n beyond the rule's length, in the last rule, after a rule without action":
		// two extra rules (unreachable, which is allowed) at the very end of the rule section
		i3 := strings.LastIndex(text, "\n%%")
		tok := g.Tokens[0].Src()
		return text[:i3] + "\nVerifPlain : " + tok + " ;\nVerifLast : " + tok + " { $7 } ;" + text[i3:]
	case "action: $0":
		return decl + rest[:firstRuleEnd] + " { $$ = $0 } " + rest[firstRuleEnd:]
	}
	return text
}

type c19Run struct {
	failed    bool
	changed   string // "" or description
	out       string
	exit      int
	straceHit string
	straceRan bool
	content   string
}

var sentinel = strings.Repeat("SENTINEL-do-not-touch-0123456789\n", 128)

func haveStrace() bool {
	_, err := exec.LookPath("strace")
	return err == nil
}

func c19Exec(dir, text string, variant []string, useStrace bool, prev string) c19Run {
	in := filepath.Join(dir, "in.y")
	outName := "out.go"
	if variant[0] == "typescript" {
		outName = "out.ts"
	}
	out := filepath.Join(dir, outName)
	os.WriteFile(in, []byte(text), 0644)
	os.WriteFile(out, []byte(prev), 0644)
	old := time.Date(2001, 2, 3, 4, 5, 6, 0, time.UTC)
	os.Chtimes(out, old, old)
	st0, _ := os.Stat(out)
	ino0 := st0.Sys().(*syscall.Stat_t).Ino
	args := append([]string{"generate"}, variant...)
	args = append(args, "in.y", outName)
	var res c19Run
	if useStrace {
		res.straceRan = true
		log := filepath.Join(dir, "strace.log")
		cmdArgs := append([]string{"-f", "-o", log, "-e", "trace=open,openat,creat,truncate,ftruncate,rename,renameat,renameat2,unlink,unlinkat", yaccgoPath()}, args...)
		cmd := exec.Command("strace", cmdArgs...)
		cmd.Dir = dir
		ob, err := cmd.CombinedOutput()
		res.out = string(ob)
		if ee, ok := err.(*exec.ExitError); ok {
			res.exit = ee.ExitCode()
		} else if err != nil {
			res.exit = -1
		}
		lb, _ := os.ReadFile(log)
		for _, ln := range strings.Split(string(lb), "\n") {
			if !strings.Contains(ln, "\""+outName+"\"") && !strings.Contains(ln, "/"+outName+"\"") {
				continue
			}
			if strings.Contains(ln, "O_WRONLY") || strings.Contains(ln, "O_RDWR") || strings.Contains(ln, "O_TRUNC") || strings.Contains(ln, "O_CREAT") ||
				strings.Contains(ln, "truncate(") || strings.Contains(ln, "rename") || strings.Contains(ln, "unlink") || strings.Contains(ln, "creat(") {
				res.straceHit = ln
				break
			}
		}
		os.Remove(log)
	} else {
		r := runCLI(20, 2*time.Minute, dir, args...)
		res.out, res.exit = r.Out, r.Exit
	}
	res.failed = res.exit != 0 || strings.Contains(res.out, "panic:")
	b, err := os.ReadFile(out)
	res.content = string(b)
	st1, err1 := os.Stat(out)
	switch {
	case err != nil || err1 != nil:
		res.changed = "the file no longer exists"
	case string(b) != prev:
		res.changed = fmt.Sprintf("content changed (now %d bytes, starts %q)", len(b), trunc(string(b), 60))
	case st1.Sys().(*syscall.Stat_t).Ino != ino0:
		res.changed = "the file was replaced (different inode)"
	case !st1.ModTime().Equal(st0.ModTime()):
		res.changed = "modification time changed"
	}
	os.Remove(out)
	os.Remove(in)
	return res
}

var caseLabelRe = regexp.MustCompile(`case (\d+):`)

func (p c19) Run(seed int64, tier string, idx int) Outcome {
	o := Outcome{Status: "held"}
	dir := filepath.Join(scratch(), fmt.Sprintf("c19-%d-%d", os.Getpid(), idx))
	os.MkdirAll(dir, 0755)
	defer os.RemoveAll(dir)
	strace := haveStrace()
	if !strace {
		o.count("strace_leg_skipped(no strace)", 1)
	}
	judge := func(what string, text string, variant []string, mustFail bool, epilogue string, nRules int) bool {
		res := c19Exec(dir, text, variant, strace && (idx%2 == 0), sentinel)
		o.count("eval:cli_runs", 1)
		if res.straceRan {
			o.count("runs_under_strace", 1)
		}
		o.Replay = map[string]interface{}{"input": text, "options": variant, "kind": what}
		if res.failed {
			o.count("failures_reported", 1)
			o.count("kind:"+what, 1)
			if res.changed != "" {
				o.Status = "violated"
				o.Detail = fmt.Sprintf("yaccgo generate %v failed (%s) but damaged the existing output file: %s\nyaccgo said: %s\ninput:\n%s", variant, what, res.changed, trunc(res.out, 300), text)
				return false
			}
			if res.straceHit != "" {
				o.Status = "violated"
				o.Detail = fmt.Sprintf("yaccgo generate %v failed (%s) and touched the output path on the way: %s\ninput:\n%s", variant, what, res.straceHit, text)
				return false
			}
			o.Nontrivial = true
			return true
		}
		if mustFail {
			// accepted an input built to be wrong: not this property's business, but it is not a failure run either
			o.count("bad_input_accepted(kind "+what+")", 1)
		}
		o.count("successes_reported", 1)
		if res.content == sentinel {
			o.Status = "violated"
			o.Detail = fmt.Sprintf("yaccgo generate %v reported success but did not write the output file\ninput:\n%s", variant, text)
			return false
		}
		if !strings.HasSuffix(res.content, epilogue) {
			o.Status = "violated"
			o.Detail = fmt.Sprintf("yaccgo generate %v reported success but the output does not end with the epilogue (tail %q)\ninput:\n%s", variant, trunc(res.content[max(0, len(res.content)-100):], 100), text)
			return false
		}
		if strings.Contains(res.content, "SENTINEL") {
			o.Status = "violated"
			o.Detail = "output file still contains bytes of the previous file"
			return false
		}
		if nRules > 0 {
			seen := map[string]bool{}
			for _, m := range caseLabelRe.FindAllStringSubmatch(res.content, -1) {
				seen[m[1]] = true
			}
			for k := 1; k <= nRules; k++ {
				if !seen[fmt.Sprint(k)] {
					o.Status = "violated"
					o.Detail = fmt.Sprintf("successful output lacks the case label of rule %d (incomplete file)", k)
					return false
				}
			}
		}
		// regeneration over an earlier version of the output: (a) a file of exactly the same length that
		// differs in one character of the epilogue or, without epilogue, of the last line; (b) the same
		// output followed by the tail of a longer old file. Both must end up as the output just seen.
		first := res.content
		if len(first) > 0 {
			b := []byte(first)
			k := len(b) - 1
			for k > 0 && (b[k] == '\n' || b[k] == ' ' || b[k] == '}') {
				k--
			}
			if b[k] == 'x' {
				b[k] = 'y'
			} else {
				b[k] = 'x'
			}
			for _, prev := range []string{string(b), first + strings.Repeat("// tail of a longer old file\n", 40)} {
				again := c19Exec(dir, text, variant, false, prev)
				o.count("eval:cli_runs", 1)
				o.count("regenerations_over_an_older_output", 1)
				if again.failed || again.content != first {
					o.Status = "violated"
					o.Detail = fmt.Sprintf("yaccgo generate %v over an older version of its output (%d bytes; new output %d bytes) left %d bytes that are not the complete new output (failed=%v, first difference %s)\ninput:\n%s", variant, len(prev), len(first), len(again.content), again.failed, firstDiff(again.content, first), text)
					return false
				}
			}
		}
		return true
	}
	if idx < p.kindCases() {
		ki := idx % len(c19Kinds)
		vi := (idx / len(c19Kinds)) % len(c19Variants)
		bi := idx / (len(c19Kinds) * len(c19Variants))
		g := c19Base(bi % 3)
		text := render.Render(g, c19Parts, render.Options{})
		epilogue := c19Parts.Epilogue
		if bi >= 3 {
			// a grammar file beyond 64 KiB / 128 KiB: comment lines before the first %% (so that the rules,
			// and with them most failure points, lie behind them) and at the start of the epilogue
			var fill strings.Builder
			for n := 0; fill.Len() < 70000+ki*5000; n++ {
				fmt.Fprintf(&fill, "/* filler line %06d of a large grammar file .......................... */\n", n)
			}
			efill := strings.ReplaceAll(fill.String(), "/*", "//")
			if bi == 3 {
				text = strings.Replace(text, "\n%%\n", "\n"+fill.String()+"%%\n", 1)
				efill = efill[:40000-40000%76]
			}
			text = strings.TrimSuffix(text, epilogue)
			epilogue = "\n" + efill + epilogue
			text += epilogue
		}
		kind := c19Kinds[ki]
		broken := breakText(kind, g, text)
		if kind != "success" && broken == text {
			o.Status = "inconclusive"
			o.Detail = "failure kind could not be applied: " + kind
			return o
		}
		judge(kind, broken, c19Variants[vi], kind != "success", epilogue, btoi(kind == "success")*len(g.Rules))
		o.Hash = hashOf(broken, fmt.Sprint(c19Variants[vi]))
		if idx < 2 {
			o.Sample = map[string]interface{}{"kind": kind, "options": c19Variants[vi], "input_tail": trunc(broken[max(0, len(broken)-300):], 300)}
		}
		return o
	}
	// prefixes
	r := caseRng(seed, "C19", idx)
	g := gen.Rich(r, gen.RichCfg{IntTags: true, Names: idx%2 == 0})
	var ro render.Options
	if idx%3 != 0 {
		ro.Rng = rand.New(rand.NewSource(r.Int63()))
	}
	body := render.Render(g, render.Parts{Prologue: c19Parts.Prologue, Union: c19Parts.Union}, ro)
	full := body + c19Parts.Epilogue
	// body ends with "%%" (empty epilogue rendered), so the second marker sits at len(body)-2
	p2 := len(body) - 2
	variant := c19Variants[idx%len(c19Variants)]
	hashParts := []string{fmt.Sprint(variant)}
	for k := 0; k < 25; k++ {
		l := r.Intn(len(full) + 1)
		if k%5 == 0 {
			l = len(body) - r.Intn(8) // around the second marker
		}
		if l < 0 {
			l = 0
		}
		pre := full[:l]
		epi := ""
		if l >= p2+2 {
			epi = pre[p2+2:]
		}
		if !judge("prefix", pre, variant, false, epi, 0) {
			return o
		}
		hashParts = append(hashParts, pre)
	}
	o.Hash = hashOf(hashParts...)
	return o
}
