package main

import (
	"fmt"
	"os"
	"path/filepath"
	"regexp"
	"strconv"
	"strings"

	builder "github.com/acekingke/yaccgo/Builder"
	utils "github.com/acekingke/yaccgo/Utils"

	"verif/harness/gen"
	"verif/harness/render"
	"verif/harness/yx"
)

// C11: token codes are unique and the lexer interface is consistent.
type c11 struct{}

func init() { register(c11{}) }

func (c11) ID() string { return "C11" }
func (c11) NumCases(tier string) int {
	if tier == "thorough" {
		return 20000
	}
	return 1200
}
func (c11) Rule() string {
	return "case = one token-declaration mix (explicit numbers distinct from each other and from the literals' codes, character literals, tagged/untagged, declared by %token / only on a precedence line / only used in rules) built in-process; (a) Symbol.Value: literal = character code, explicit number kept, all terminals pairwise distinct and none equal to -1 or 0; (b) both generators are run and the text of the output is parsed: one 'const NAME = code' per named token with the right value and no other token constants, and the translate switch maps every terminal's code to that terminal's symbol id, -1 to the end marker and has no other labels; (c) pipeline leg (counters gen:*): the compiled parser's translate(c) is called for every declared code and for 1000 other integers, and the lexer refers to named tokens through the generated constants; non-trivial = mix with at least one explicit number, one literal and one automatically numbered token; distinct by declaration text"
}
func (c11) Assumptions() []string {
	return []string{"explicit numbers 0, -1 or equal to a used literal's code are user errors and not generated", "token names that are keywords or identifiers of the templates are not generated"}
}
func (c11) DiedIsViolation() bool      { return true }
func (c11) MinNontrivial(t string) int { return 100 }

var constRe = regexp.MustCompile(`(?m)^const (\S+) = (-?\d+)\s*$`)
var caseRe = regexp.MustCompile(`case (-?\d+):\s*\n\s*conv = (\d+);?`)

func (c11) Run(seed int64, tier string, idx int) Outcome {
	r := caseRng(seed, "C11", idx)
	g := gen.Rich(r, gen.RichCfg{Names: idx%2 == 1, IntTags: true, EOFAlias: true})
	g.NoAction = true
	var opts render.Options
	if idx%3 == 0 {
		opts.Rng = caseRng(seed, "C11-layout", idx)
	}
	text := render.Render(g, plainParts, opts)
	o := Outcome{Status: "held", Replay: map[string]interface{}{"grammar": text}}
	fail := func(f string, a ...interface{}) Outcome {
		o.Status = "violated"
		o.Detail = fmt.Sprintf(f, a...) + "\ngrammar:\n" + text
		return o
	}
	b := yx.Build(text, false)
	if !b.OK() {
		o.Status = "inconclusive"
		o.Detail = fmt.Sprintf("not built: %v %s", b.Err, b.Panic)
		return o
	}
	G := b.Root.G
	codes := map[int]string{}
	nExp, nLit, nAuto := 0, 0, 0
	aliases := 0
	for _, t := range g.Tokens {
		if t.IsEOFAlias() {
			aliases++
			id := b.Root.GetIdsymtabl()[t.Name]
			if id == nil || id.Value != -1 {
				return fail("end-marker alias %s does not keep the number -1", t.Name)
			}
			continue
		}
		sy := G.SymbolsMap[t.YName()]
		if sy == nil {
			return fail("token %s missing from the symbol table", t.Src())
		}
		switch {
		case t.Name == "":
			nLit++
			if sy.Value != t.Lit {
				return fail("literal %s numbered %d, its character code is %d", t.Src(), sy.Value, t.Lit)
			}
		case t.Num != 0:
			nExp++
			if sy.Value != t.Num {
				return fail("token %s declared with number %d got %d", t.Name, t.Num, sy.Value)
			}
		default:
			nAuto++
		}
		if sy.Value == -1 || sy.Value == 0 {
			return fail("token %s has code %d", t.Src(), sy.Value)
		}
		if other, dup := codes[sy.Value]; dup {
			return fail("tokens %s and %s share code %d", other, t.Src(), sy.Value)
		}
		codes[sy.Value] = t.Src()
	}
	o.count("tokens_checked", len(g.Tokens))
	// terminals of yaccgo = our tokens + $
	nTerm := 0
	for _, sy := range G.Symbols {
		if !sy.IsNonTerminator {
			nTerm++
		}
	}
	if nTerm != len(g.Tokens)-aliases+1 {
		return fail("yaccgo has %d terminals, the specification has %d tokens (+ end marker)", nTerm, len(g.Tokens))
	}
	if G.Symbols[1].Name != "$" || G.Symbols[1].Value != -1 {
		return fail("symbol 1 is not the end marker with code -1")
	}
	// generated text, both languages
	dir := os.Getenv("VERIF_SCRATCH")
	if dir == "" {
		dir = os.TempDir()
	}
	for _, lang := range []string{"go", "ts"} {
		path := filepath.Join(dir, fmt.Sprintf("c11-%d-%d.%s", os.Getpid(), idx, lang))
		var err error
		var pan interface{}
		yx.CaptureStdout(func() {
			defer func() { pan = recover() }()
			utils.PackFlags = idx%2 == 0
			utils.ObjectMode = idx%4 >= 2
			if lang == "go" {
				err = builder.TemplateGenFromString(text, path)
			} else {
				err = builder.TsGenFromString(text, path)
			}
		})
		utils.PackFlags, utils.ObjectMode = true, false
		ob, _ := os.ReadFile(path)
		os.Remove(path)
		if err != nil || pan != nil {
			return fail("%s generation failed: err=%v panic=%v", lang, err, pan)
		}
		out := string(ob)
		if i := strings.Index(out, "// Code Last part"); i >= 0 {
			out = out[:i]
		}
		consts := map[string]int{}
		for _, m := range constRe.FindAllStringSubmatch(out, -1) {
			v, _ := strconv.Atoi(m[2])
			if _, dup := consts[m[1]]; dup {
				return fail("%s output defines constant %s twice", lang, m[1])
			}
			consts[m[1]] = v
		}
		for _, t := range g.Tokens {
			if t.Name == "" {
				continue
			}
			v, ok := consts[t.Name]
			if !ok {
				return fail("%s output has no constant for token %s", lang, t.Name)
			}
			if t.IsEOFAlias() {
				if v != -1 {
					return fail("%s output: const %s = %d, declared as -1", lang, t.Name, v)
				}
				delete(consts, t.Name)
				o.count("eof_alias_constants_checked", 1)
				continue
			}
			if v != G.SymbolsMap[t.Name].Value {
				return fail("%s output: const %s = %d, the token's code is %d", lang, t.Name, v, G.SymbolsMap[t.Name].Value)
			}
			delete(consts, t.Name)
			o.count("constants_checked", 1)
		}
		delete(consts, "ERROR_ACTION")
		delete(consts, "ACCEPT_ACTION")
		delete(consts, "NTERMINALS")
		if len(consts) != 0 {
			return fail("%s output defines unexpected constants %v", lang, consts)
		}
		// translate
		ti := strings.Index(out, "translate(c")
		if ti < 0 {
			return fail("%s output has no translate function", lang)
		}
		body := out[ti:]
		if e := strings.Index(body, "return conv"); e >= 0 {
			body = body[:e]
		}
		tr := map[int]int{}
		for _, m := range caseRe.FindAllStringSubmatch(body, -1) {
			c, _ := strconv.Atoi(m[1])
			id, _ := strconv.Atoi(m[2])
			if _, dup := tr[c]; dup {
				return fail("%s translate has two labels for code %d", lang, c)
			}
			tr[c] = id
		}
		for _, sy := range G.Symbols {
			if sy.IsNonTerminator {
				continue
			}
			id, ok := tr[sy.Value]
			if !ok || id != int(sy.ID) {
				return fail("%s translate maps code %d of %s to %v (present=%v), its symbol id is %d", lang, sy.Value, sy.Name, id, ok, sy.ID)
			}
			delete(tr, sy.Value)
			o.count("translate_labels_checked", 1)
		}
		if len(tr) != 0 {
			return fail("%s translate has labels for codes that are no token: %v", lang, tr)
		}
	}
	o.Nontrivial = nExp > 0 && nLit > 0 && nAuto > 0
	o.Hash = hashOf(text)
	o.count("mixes", 1)
	if o.Nontrivial && idx%40 < 3 {
		o.Sample = map[string]interface{}{"grammar": trunc(text, 500), "codes": codes}
	}
	return o
}
