package main

import (
	"bytes"
	"encoding/json"
	"fmt"
	"math/rand"
	"os"
	"os/exec"
	"syscall"
	"time"

	"verif/harness/gen"
	"verif/harness/ref"
	"verif/harness/render"
	"verif/harness/spec"
)

// plainParts are minimal verbatim blocks for in-process cases (never compiled).
var plainParts = render.Parts{Prologue: "package p", Union: "\n\ts string\n\tt string\n\tn int\n\tm int\n", Epilogue: "\n// end\n"}

var families = gen.Families()
var escapeFamilies = gen.EscapeFamilies()

func cloneGrammar(g *spec.Grammar) *spec.Grammar {
	b, _ := json.Marshal(g)
	var c spec.Grammar
	json.Unmarshal(b, &c)
	return &c
}

var stdCfg = gen.RandCfg{MaxT: 5, MaxNT: 5, MaxAlt: 3, MaxRhs: 4, Lits: true, Prec: true}
var bigCfg = gen.RandCfg{MaxT: 6, MaxNT: 7, MaxAlt: 3, MaxRhs: 4, Lits: true, Prec: true}

// pickGrammar: families first, then random grammars.
func pickGrammar(r *rand.Rand, idx int, usable bool, cfg gen.RandCfg) *spec.Grammar {
	return defaultStartName(pickGrammar0(r, idx, usable, cfg), idx)
}

// defaultStartName gives the start symbol of every ninth generated grammar
// yaccgo's default name ("start"), so that renderings may omit %start and the
// user's symbol shares its name with the augmented start symbol.
func defaultStartName(g *spec.Grammar, idx int) *spec.Grammar {
	if idx < len(families)+len(escapeFamilies) || idx%9 != 6 {
		return g
	}
	for _, n := range g.NTs {
		if n.Name == "start" {
			return g
		}
	}
	for _, t := range g.Tokens {
		if t.Name == "start" {
			return g
		}
	}
	g.NTs[g.Start].Name = "start"
	if idx%18 == 15 && len(g.NTs) > 1 { // odd indices: the campaigns render those with a random layout
		// the default applies to a symbol that is known from its rules only: no %type line for it
		// (its value is then never used) and its rules do not come first in the file
		g.NTs[g.Start].Tag = ""
		var first, rest []spec.Rule
		for _, ru := range g.Rules {
			if ru.Lhs == g.Start {
				rest = append(rest, ru)
			} else {
				first = append(first, ru)
			}
		}
		if len(first) > 0 {
			g.Rules = append(first, rest...)
		}
		for k := range g.Rules {
			g.Rules[k].Act = spec.Act{}
		}
		g.DefaultActs()
	}
	return g
}

func pickGrammar0(r *rand.Rand, idx int, usable bool, cfg gen.RandCfg) *spec.Grammar {
	if idx < len(families) {
		b, _ := json.Marshal(families[idx])
		var g spec.Grammar
		json.Unmarshal(b, &g)
		return &g
	}
	if usable && idx%397 == 57 { // a prime modulus: the heavy cases spread over all worker processes
		// close to, but below, the built-in limit of 2000 parser states (1500-1990 states)
		for n := 800 + r.Intn(150); ; n -= 40 {
			g := gen.HugeN(r, n)
			if ref.BuildLR0(g.ToRef(), 1990) != nil {
				return g
			}
		}
	}
	if usable && idx%10 == 8 {
		return gen.Optionals(r)
	}
	if usable && idx%20 == 13 {
		return gen.Aliases(r)
	}
	if usable && idx%5 == 3 {
		return gen.Contexts(r)
	}
	if usable && idx%10 == 4 {
		return gen.Rings(r)
	}
	if usable && idx%50 == 7 {
		return gen.Big(r)
	}
	if usable && idx%25 == 6 {
		return gen.Ladder(r)
	}
	if usable && idx%50 == 19 {
		// 260-340 productions, 600-850 states: beyond every 8-bit size
		return gen.Huge(r)
	}
	if usable && idx%40 == 11 {
		// more than 64 symbols (in-process checks only: the drivers' input encoding holds 62 tokens)
		return gen.ManyTokens(r)
	}
	if usable && idx%7 == 2 {
		return gen.LongRules(r)
	}
	if usable && idx%7 == 5 {
		// rules of 10-12 symbols and a dozen or more rules
		return gen.Rich(r, gen.RichCfg{LongRhs: true, Names: idx%2 == 1})
	}
	if usable {
		return gen.RandUsable(r, cfg)
	}
	return gen.Rand(r, cfg)
}

func specJSON(g *spec.Grammar) string {
	b, _ := json.Marshal(g)
	return string(b)
}

func trunc(s string, n int) string {
	if len(s) > n {
		return s[:n] + "..."
	}
	return s
}

// ---------------------------------------------------------------- CLI runs

type cliResult struct {
	Exit     int
	Signal   string
	Out      string
	CPU      float64
	TimedOut bool // wall-clock watchdog fired (inconclusive, never a verdict)
	Err      string
}

func yaccgoPath() string {
	if v := os.Getenv("VERIF_YACCGO"); v != "" {
		return v
	}
	return "yaccgo"
}

// runCLI runs the real yaccgo binary under RLIMIT_CPU (seconds) in dir.
func runCLI(cpuLimit int, wall time.Duration, dir string, args ...string) cliResult {
	// the CPU limit is the budget; the wall-clock watchdog only ends runs that are blocked without using
	// CPU, and must not fire because the machine is busy: never less than 15 minutes
	// (C13, whose subject is termination, passes its own 5 minutes for inputs of a few hundred bytes)
	if wall < 5*time.Minute {
		wall = 5 * time.Minute
	} else if wall < 15*time.Minute && cpuLimit > 10 {
		wall = 15 * time.Minute
	}
	sh := fmt.Sprintf("ulimit -t %d; exec \"$0\" \"$@\"", cpuLimit)
	cmd := exec.Command("bash", append([]string{"-c", sh, yaccgoPath()}, args...)...)
	cmd.Dir = dir
	var buf bytes.Buffer
	cmd.Stdout = &buf
	cmd.Stderr = &buf
	res := cliResult{}
	if err := cmd.Start(); err != nil {
		res.Err = err.Error()
		res.Exit = -1
		return res
	}
	done := make(chan error, 1)
	go func() { done <- cmd.Wait() }()
	var err error
	select {
	case err = <-done:
	case <-time.After(wall):
		res.TimedOut = true
		cmd.Process.Signal(syscall.SIGQUIT)
		select {
		case err = <-done:
		case <-time.After(5 * time.Second):
			cmd.Process.Kill()
			err = <-done
		}
	}
	res.Out = buf.String()
	if cmd.ProcessState != nil {
		res.CPU = cmd.ProcessState.UserTime().Seconds() + cmd.ProcessState.SystemTime().Seconds()
		if ws, ok := cmd.ProcessState.Sys().(syscall.WaitStatus); ok {
			if ws.Signaled() {
				res.Signal = ws.Signal().String()
				res.Exit = 128 + int(ws.Signal())
			} else {
				res.Exit = ws.ExitStatus()
			}
		}
	}
	if err != nil && res.Exit == 0 && res.Signal == "" {
		res.Err = err.Error()
	}
	return res
}

func scratch() string {
	if v := os.Getenv("VERIF_SCRATCH"); v != "" {
		return v
	}
	return os.TempDir()
}

func repoDir() string {
	if v := os.Getenv("VERIF_REPO"); v != "" {
		return v
	}
	return "/repo"
}
