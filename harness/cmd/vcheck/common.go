package main

import (
	"encoding/json"
	"math/rand"

	"verif/harness/gen"
	"verif/harness/render"
	"verif/harness/spec"
)

// plainParts are minimal verbatim blocks for in-process cases (never compiled).
var plainParts = render.Parts{Prologue: "package p", Union: "\n\ts string\n\tt string\n\tn int\n\tm int\n", Epilogue: "\n// end\n"}

var families = gen.Families()

var stdCfg = gen.RandCfg{MaxT: 5, MaxNT: 5, MaxAlt: 3, MaxRhs: 4, Lits: true, Prec: true}
var bigCfg = gen.RandCfg{MaxT: 6, MaxNT: 7, MaxAlt: 3, MaxRhs: 4, Lits: true, Prec: true}

// pickGrammar: families first, then random grammars.
func pickGrammar(r *rand.Rand, idx int, usable bool, cfg gen.RandCfg) *spec.Grammar {
	if idx < len(families) {
		b, _ := json.Marshal(families[idx])
		var g spec.Grammar
		json.Unmarshal(b, &g)
		return &g
	}
	if usable {
		return gen.RandUsable(r, cfg)
	}
	return gen.Rand(r, cfg)
}

func specJSON(g *spec.Grammar) string {
	b, _ := json.Marshal(g)
	return string(b)
}

func trunc(s string, n int) string {
	if len(s) > n {
		return s[:n] + "..."
	}
	return s
}
