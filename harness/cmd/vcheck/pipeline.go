package main

import (
	"fmt"
	"math/rand"
	"os"
	"path/filepath"
	"sort"
	"strings"
	"time"

	"verif/harness/pipe"
	"verif/harness/ref"
	"verif/harness/spec"
)

// gcase is one grammar of a generated-parser campaign with everything the
// reference models say about it and everything observed.
type gcase struct {
	Idx         int
	G           *spec.Grammar
	RG          *ref.Grammar
	Tab         *ref.Table // nil when the reference could not be built
	LALR1       bool       // no conflict cell at all
	Clean       bool       // no don't-care cell (reference table usable for simulation)
	Inputs      [][]int    // token indices, -1 = undeclared token
	Member      []bool     // Earley membership
	Bad         []int      // Earley first bad token index (-1 for sentences)
	Sims        []ref.SimResult
	StepLim     int
	SpineReds   int // reductions of the spine sentence (0 = none)
	Prescreened int
	Derived     map[string]bool // inputs that are sentences by construction (too long for the Earley recognizer)
	Job         *pipe.Job
	Outs        map[pipe.Variant]*pipe.Out
}

func (c *gcase) refTokens(in []int) []int {
	res := make([]int, len(in))
	for i, t := range in {
		if t < 0 {
			res[i] = -1
		} else {
			res[i] = c.G.RefTok(t)
		}
	}
	return res
}

func inputStr(g *spec.Grammar, in []int) string {
	parts := []string{}
	for _, t := range in {
		if t < 0 {
			parts = append(parts, "<undeclared>")
		} else {
			parts = append(parts, g.Tokens[t].Src())
		}
	}
	return strings.Join(parts, " ")
}

// earley with the undeclared token: it can never continue a sentence.
func (c *gcase) earley(in []int) (bool, int) {
	cut := len(in)
	for i, t := range in {
		if t < 0 {
			cut = i
			break
		}
	}
	acc, bad := c.RG.Earley(c.refTokens(in[:cut]))
	if cut < len(in) {
		if !acc && bad < cut {
			return false, bad
		}
		return false, cut
	}
	return acc, bad
}

// genInputs: breadth-first over viable prefixes, then random sentences and mutations.
func (c *gcase) genInputs(r *rand.Rand, maxStrings, nLong int) {
	seen := map[string]bool{}
	add := func(in []int) bool {
		k := fmt.Sprint(in)
		if seen[k] {
			return false
		}
		seen[k] = true
		c.Inputs = append(c.Inputs, append([]int{}, in...))
		return true
	}
	nT := len(c.G.Tokens)
	alphabet := make([]int, 0, nT+1)
	for t := 0; t < nT; t++ {
		if c.G.TokenExists(t) && t < 62 { // the drivers' input encoding holds 62 tokens
			alphabet = append(alphabet, t)
		}
	}
	alphabet = append(alphabet, -1)
	add(nil)
	queue := [][]int{nil}
	var dead [][]int
	for len(queue) > 0 && len(c.Inputs) < maxStrings {
		p := queue[0]
		queue = queue[1:]
		if len(p) >= 12 {
			continue
		}
		perm := r.Perm(len(alphabet))
		for _, pi := range perm {
			s := append(append([]int{}, p...), alphabet[pi])
			if !add(s) {
				continue
			}
			acc, bad := c.earley(s)
			if acc || bad == len(s) {
				queue = append(queue, s)
			} else {
				dead = append(dead, s)
			}
			if len(c.Inputs) >= maxStrings {
				break
			}
		}
	}
	// garbage after the first bad token
	for i := 0; i < len(dead) && i < maxStrings/10+5; i++ {
		d := dead[r.Intn(len(dead))]
		s := append([]int{}, d...)
		for k := 0; k < 1+r.Intn(3); k++ {
			s = append(s, alphabet[r.Intn(len(alphabet))])
		}
		add(s)
	}
	// long random sentences and their mutations
	minLen := c.minLens()
	for i := 0; i < nLong; i++ {
		s := c.randomSentence(r, minLen, 4+r.Intn(36))
		if s == nil || len(s) > 60 {
			continue
		}
		add(s)
		if len(s) == 0 {
			continue
		}
		m := append([]int{}, s...)
		p := r.Intn(len(m))
		switch r.Intn(5) {
		case 0:
			m = append(m[:p], m[p+1:]...)
		case 1:
			m = append(m[:p], append([]int{alphabet[r.Intn(len(alphabet))]}, m[p:]...)...)
		case 2:
			m[p] = alphabet[r.Intn(len(alphabet))]
		case 3:
			if p+1 < len(m) {
				m[p], m[p+1] = m[p+1], m[p]
			}
		case 4:
			m = m[:p]
		}
		add(m)
	}
	// a few deep sentences (hundreds of tokens: stack growth, long derivations)
	if nLong > 0 {
		for i := 0; i < 2; i++ {
			s := c.deepSentence(r, minLen, 150+r.Intn(500))
			if len(s) < 100 {
				continue
			}
			// a sentence by construction: its derivation is the membership proof (the Earley
			// recognizer is quadratic to cubic at this length)
			if add(s) {
				if c.Derived == nil {
					c.Derived = map[string]bool{}
				}
				c.Derived[fmt.Sprint(s)] = true
			}
		}
		if nLong >= 100 {
			// one sentence with a right-recursive spine of more than a thousand links
			if s := c.spineSentence(r, minLen); len(s) > 1000 && len(s) < 14000 && add(s) {
				if c.Derived == nil {
					c.Derived = map[string]bool{}
				}
				c.Derived[fmt.Sprint(s)] = true
			}
		}
	}
}

// spineSentence builds a sentence whose derivation applies one directly right-recursive rule
// A -> alpha A more than a thousand times in a row (alpha deriving at least one token): the parser
// shifts the whole spine before it reduces anything, and then performs that many reductions
// without a shift in between. nil if the grammar has no such rule within reach.
func (c *gcase) spineSentence(r *rand.Rand, minLen []int) []int {
	const inf = 1 << 20
	g := c.RG
	minOf := func(ri int) int {
		l := 0
		for _, x := range g.Rules[ri].Rhs {
			l += minLen[x]
			if l >= inf {
				return inf
			}
		}
		return l
	}
	// minimal expansion of a symbol into tokens; apps counts the rules applied (= reductions of the parse)
	apps := 0
	var expand func(s int, depth int) []int
	expand = func(s int, depth int) []int {
		if !g.IsNT[s] {
			return []int{s}
		}
		apps++
		if depth > 200 {
			return nil
		}
		best := -1
		for _, ri := range g.RulesOf(s) {
			if best < 0 || minOf(ri) < minOf(best) {
				best = ri
			}
		}
		if best < 0 || minOf(best) >= inf {
			return nil
		}
		var out []int
		for _, x := range g.Rules[best].Rhs {
			out = append(out, expand(x, depth+1)...)
		}
		return out
	}
	// candidates: A -> alpha A, alpha non-empty with a finite, non-zero minimal length
	var cands []int
	for ri, ru := range g.Rules {
		n := len(ru.Rhs)
		if ri == 0 || n < 2 || ru.Rhs[n-1] != ru.Lhs {
			continue
		}
		l := 0
		for _, x := range ru.Rhs[:n-1] {
			l += minLen[x]
		}
		if l >= 1 && l < 8 && minLen[ru.Lhs] < inf {
			cands = append(cands, ri)
		}
	}
	if len(cands) == 0 {
		return nil
	}
	ri := cands[r.Intn(len(cands))]
	a := g.Rules[ri].Lhs
	// shortest chain of rules from the start symbol down to a
	start := g.Rules[0].Rhs[0]
	type step struct{ rule, pos, from int }
	via := map[int]step{}
	seen := map[int]bool{start: true}
	queue := []int{start}
	for len(queue) > 0 && !seen[a] {
		s := queue[0]
		queue = queue[1:]
		for _, rj := range g.RulesOf(s) {
			if minOf(rj) >= inf {
				continue
			}
			for pos, x := range g.Rules[rj].Rhs {
				if g.IsNT[x] && !seen[x] {
					seen[x] = true
					via[x] = step{rj, pos, s}
					queue = append(queue, x)
				}
			}
		}
	}
	if !seen[a] {
		return nil
	}
	var chain []step
	for x := a; x != start; x = via[x].from {
		chain = append([]step{via[x]}, chain...)
	}
	n := 1100 + r.Intn(600)
	// reductions per link: the rule itself plus what its alpha part takes (unit chains can be deep);
	// keep the whole parse below 30 000 reductions
	apps = 0
	for _, x := range g.Rules[ri].Rhs[:len(g.Rules[ri].Rhs)-1] {
		expand(x, 0)
	}
	perLink := apps + 1
	if perLink > 25 {
		return nil
	}
	if n*perLink > 30000 {
		n = 30000 / perLink
	}
	apps = 0
	var prefix, suffix []int
	for _, st := range chain {
		rhs := g.Rules[st.rule].Rhs
		for _, x := range rhs[:st.pos] {
			prefix = append(prefix, expand(x, 0)...)
		}
		var tail []int
		for _, x := range rhs[st.pos+1:] {
			tail = append(tail, expand(x, 0)...)
		}
		suffix = append(tail, suffix...)
	}
	var alpha []int
	rhs := g.Rules[ri].Rhs
	for _, x := range rhs[:len(rhs)-1] {
		alpha = append(alpha, expand(x, 0)...)
	}
	out := append([]int{}, prefix...)
	for i := 0; i < n; i++ {
		out = append(out, alpha...)
	}
	out = append(out, expand(a, 0)...)
	c.SpineReds = apps + len(chain) + n*perLink + 8
	return append(out, suffix...)
}

// deepSentence derives a sentence of about target tokens, preferring rules
// that keep the derivation going until the target is in reach.
func (c *gcase) deepSentence(r *rand.Rand, minLen []int, target int) []int {
	g := c.RG
	form := []int{g.Rules[0].Rhs[0]}
	var out []int
	for steps := 0; len(form) > 0; steps++ {
		if steps > 40*target || len(form) > 4*target {
			return nil
		}
		s := form[0]
		form = form[1:]
		if !g.IsNT[s] {
			out = append(out, s)
			continue
		}
		rest := 0
		for _, x := range form {
			rest += minLen[x]
		}
		rules := g.RulesOf(s)
		minOf := func(ri int) int {
			l := 0
			for _, x := range g.Rules[ri].Rhs {
				l += minLen[x]
			}
			return l
		}
		pick := rules[0]
		if len(out)+rest >= target {
			for _, ri := range rules {
				if minOf(ri) < minOf(pick) {
					pick = ri
				}
			}
		} else {
			// prefer rules with nonterminals on the right
			var rec []int
			for _, ri := range rules {
				for _, x := range g.Rules[ri].Rhs {
					if g.IsNT[x] && minOf(ri) < 1<<20 {
						rec = append(rec, ri)
						break
					}
				}
			}
			if len(rec) > 0 && r.Intn(8) != 0 {
				pick = rec[r.Intn(len(rec))]
			} else {
				pick = rules[r.Intn(len(rules))]
			}
			if minOf(pick) >= 1<<20 {
				return nil
			}
		}
		form = append(append([]int{}, g.Rules[pick].Rhs...), form...)
	}
	return out
}

func (c *gcase) minLens() []int {
	const inf = 1 << 20
	g := c.RG
	ml := make([]int, g.NSym)
	for s := range ml {
		if g.IsNT[s] {
			ml[s] = inf
		} else {
			ml[s] = 1
		}
	}
	for ch := true; ch; {
		ch = false
		for _, ru := range g.Rules {
			t := 0
			for _, s := range ru.Rhs {
				t += ml[s]
				if t > inf {
					t = inf
				}
			}
			if t < ml[ru.Lhs] {
				ml[ru.Lhs] = t
				ch = true
			}
		}
	}
	return ml
}

// randomSentence derives a random sentence of roughly the target length.
func (c *gcase) randomSentence(r *rand.Rand, minLen []int, target int) []int {
	g := c.RG
	form := []int{g.Rules[0].Rhs[0]}
	var out []int
	steps := 0
	for len(form) > 0 {
		steps++
		if steps > 4000 {
			return nil
		}
		s := form[0]
		form = form[1:]
		if !g.IsNT[s] {
			out = append(out, s) // ref ids of tokens equal spec token indices
			continue
		}
		rest := 0
		for _, x := range form {
			rest += minLen[x]
		}
		rules := g.RulesOf(s)
		var pick int
		if len(out)+rest >= target || steps > 1500 {
			// finish as fast as possible
			best, bl := rules[0], 1<<30
			for _, ri := range rules {
				l := 0
				for _, x := range g.Rules[ri].Rhs {
					l += minLen[x]
				}
				if l < bl {
					best, bl = ri, l
				}
			}
			pick = best
		} else {
			pick = rules[r.Intn(len(rules))]
		}
		form = append(append([]int{}, g.Rules[pick].Rhs...), form...)
		if len(form) > 400 {
			return nil
		}
	}
	return out
}

// prepare computes the reference verdicts for all inputs.
func (c *gcase) prepare() {
	c.RG = c.G.ToRef()
	lr0 := ref.BuildLR0(c.RG, 1990)
	if lr0 != nil {
		if la := ref.BuildLALR(lr0, 20000); la != nil {
			c.Tab = ref.BuildTable(la)
			c.LALR1 = len(c.Tab.Cells) == 0
			// the reference table is authoritative only where yacc's and yaccgo's documented rule for a
			// rule's precedence coincide (section 10: don't-care zone)
			c.Clean = !c.Tab.HasDontCare && !c.G.PrecAmbiguous()
		}
	}
}

func (c *gcase) judgeInputs() {
	rmax := 0
	for _, in := range c.Inputs {
		acc, bad := true, -1
		if !c.Derived[fmt.Sprint(in)] {
			acc, bad = c.earley(in)
		}
		c.Member = append(c.Member, acc)
		c.Bad = append(c.Bad, bad)
		var sim ref.SimResult
		if c.Tab != nil && c.Clean {
			sim = c.Tab.Sim(c.refTokens(in), 5000+40*len(in))
			if !sim.StepLimit && len(sim.Reds) > rmax {
				rmax = len(sim.Reds)
			}
		}
		c.Sims = append(c.Sims, sim)
	}
	lmax := 0
	for _, in := range c.Inputs {
		if len(in) > lmax {
			lmax = len(in)
		}
	}
	c.StepLim = 200 + 4*rmax + 2*lmax
	if c.Tab == nil || !c.Clean {
		c.StepLim = 2000 + 8*lmax
	}
	// the spine sentence needs a known number of reductions (its derivation is known)
	c.StepLim += 2 * c.SpineReds
}

// campaign configuration
type campaign struct {
	Prop      string
	Tier      string
	Seed      int64
	N         int
	Only      int
	Make      func(r *rand.Rand, i int) *spec.Grammar
	Variants  func(i int) []pipe.Variant
	MaxStr    int
	NLong     int
	Trace     bool
	Probe     bool
	Race      bool
	Layout    bool
	Configure func(c *gcase) // adjust the job (modes, orders...)
	Judge     func(c *gcase, o *Outcome)
	BatchSize int
}

func pipeCfg(race bool) pipe.Config {
	return pipe.Config{Scratch: scratch(), Yaccgo: yaccgoPath(), Node: os.Getenv("VERIF_NODE"), Race: race, Par: 16}
}

// run executes the campaign in batches and returns one outcome per grammar.
func (cp *campaign) run() []Outcome {
	var outs []Outcome
	bs := cp.BatchSize
	if bs == 0 {
		bs = 60
	}
	for start := 0; start < cp.N; start += bs {
		var cases []*gcase
		for i := start; i < start+bs && i < cp.N; i++ {
			if cp.Only >= 0 && i != cp.Only {
				continue
			}
			r := caseRng(cp.Seed, cp.Prop+"-pipeline", i)
			c := &gcase{Idx: i, G: cp.Make(r, i)}
			c.prepare()
			c.genInputs(r, cp.MaxStr, cp.NLong)
			if pr := getPrio(c.G); len(pr) > 0 {
				// inputs selected by pre-screening come first (duplicates are harmless)
				c.Inputs = append(append([][]int{}, pr...), c.Inputs...)
				c.Prescreened = len(pr)
			}
			c.judgeInputs()
			job := &pipe.Job{ID: i, G: c.G, Variants: cp.Variants(i)}
			for _, in := range c.Inputs {
				job.Req.Cases = append(job.Req.Cases, pipe.Encode(in))
			}
			job.Req.StepLimit = c.StepLim
			job.Req.Trace = cp.Trace
			if cp.Probe {
				job.Req.Probe = probeCodes(c.G)
			}
			if cp.Layout && (i%2 == 1 || cp.Prop == "C16") {
				job.LayoutSeed = r.Int63()
			}
			c.Job = job
			if cp.Configure != nil {
				cp.Configure(c)
			}
			cases = append(cases, c)
		}
		if len(cases) == 0 {
			continue
		}
		var jobs []*pipe.Job
		for _, c := range cases {
			jobs = append(jobs, c.Job)
		}
		cfg := pipeCfg(cp.Race)
		cfg.Scratch = filepath.Join(scratch(), fmt.Sprintf("batch%d", start))
		os.MkdirAll(cfg.Scratch, 0755)
		res := pipe.Run(cfg, jobs)
		for _, c := range cases {
			c.Outs = res[c.Idx]
			o := Outcome{Idx: c.Idx, Status: "held"}
			o.Replay = map[string]interface{}{"spec": c.G, "grammar_text": c.Job.Text}
			// common bookkeeping: generation/compile/run failures
			if c.Prescreened > 0 {
				o.count("grammars_selected_by_prescreening", 1)
				o.count("priority_inputs_from_prescreening", c.Prescreened)
			}
			cp.common(c, &o)
			if o.Status == "held" {
				cp.Judge(c, &o)
			}
			outs = append(outs, o)
		}
		os.RemoveAll(cfg.Scratch)
	}
	return outs
}

func probeCodes(g *spec.Grammar) []int {
	set := map[int]bool{-1: true, 0: true, pipe.BadCode(g): true}
	for c := -3; c < 1100; c++ {
		set[c] = true
	}
	for _, t := range g.Tokens {
		if t.Num != 0 {
			set[t.Num] = true
			set[t.Num+1] = true
		}
	}
	r := rand.New(rand.NewSource(int64(len(g.Tokens))))
	for i := 0; i < 700; i++ {
		set[r.Intn(3000)] = true
	}
	// integers that equal a token code (or the end marker) modulo 2^32 or 2^31
	wrap := []int{-1, 0, 43}
	for _, t := range g.Tokens {
		if t.Num != 0 {
			wrap = append(wrap, t.Num)
		} else if t.Name == "" {
			wrap = append(wrap, t.Lit)
		}
	}
	for c := 256; c < 300; c++ {
		wrap = append(wrap, c)
	}
	for _, c := range wrap {
		for _, d := range []int{1 << 32, -(1 << 32), 1 << 31, 1 << 33} {
			set[c+d] = true
		}
	}
	var res []int
	for c := range set {
		res = append(res, c)
	}
	sort.Ints(res)
	return res
}

// common turns infrastructure failures into inconclusive outcomes; generation
// failures of usable grammars and compile errors in generated code are left to
// the properties that own them (C12/C16) but make the case inconclusive here.
func (cp *campaign) common(c *gcase, o *Outcome) {
	live := 0
	var firstFail string
	fail := func(v pipe.Variant, kind, detail string) {
		o.count("variant_pairs_failed", 1)
		o.count("variant_failed:"+string(v)+":"+kind, 1)
		if firstFail == "" {
			firstFail = detail
		}
	}
	for _, v := range c.Job.Variants {
		out := c.Outs[v]
		if out == nil {
			fail(v, "no record", "no output record for "+string(v))
			continue
		}
		if out.Skipped != "" {
			o.count("variant_skipped:"+string(v)+":"+out.Skipped, 1)
			continue
		}
		o.count("variant_pairs_total", 1)
		switch {
		case !out.GenOK:
			if cp.Prop != "C16" {
				fail(v, "generation refused", fmt.Sprintf("yaccgo generate (%s) failed on a usable grammar: exit %d: %s", v, out.GenExit, trunc(out.GenOut, 600)))
			}
		case out.BuildErr != "":
			if cp.Prop != "C16" {
				fail(v, "does not compile", fmt.Sprintf("generated parser (%s) does not compile (in generated code: %v): %s", v, out.InGenCode, trunc(out.BuildErr, 600)))
			}
		case out.Resp == nil:
			if cp.Prop != "C16" {
				fail(v, "process failed", fmt.Sprintf("parser process (%s) failed: %s", v, trunc(out.RunErr, 1500)))
			}
		case len(out.Resp.Results) == 0 || len(out.Resp.Results[0]) != len(c.Inputs):
			fail(v, "bad response", fmt.Sprintf("parser process (%s) returned %d result lists", v, len(out.Resp.Results)))
			out.Resp = nil
		default:
			live++
		}
	}
	if live == 0 && cp.Prop != "C16" {
		o.Status = "inconclusive"
		o.Detail = "no variant could be run: " + firstFail
	} else if firstFail != "" {
		o.Replay = map[string]interface{}{"spec": c.G, "grammar_text": c.Job.Text, "variant_failure": firstFail}
	}
}

// live returns the variants that produced results.
func (c *gcase) live() []pipe.Variant {
	var res []pipe.Variant
	for _, v := range c.Job.Variants {
		if out := c.Outs[v]; out != nil && out.Resp != nil && len(out.Resp.Results) > 0 {
			res = append(res, v)
		}
	}
	return res
}

func (c *gcase) result(v pipe.Variant, k int) pipe.Result { return c.Outs[v].Resp.Results[0][k] }

func refReds(log []int) []int {
	res := make([]int, len(log))
	for i, k := range log {
		res[i] = k + 1
	}
	return res
}

func describeCase(c *gcase, v pipe.Variant, k int) string {
	r := c.result(v, k)
	return fmt.Sprintf("variant %s, input [%s] (%q): verdict %s %s, reductions %v, tokens fetched %d, value %q\ngrammar:\n%s",
		v, inputStr(c.G, c.Inputs[k]), pipe.Encode(c.Inputs[k]), r.Verdict, trunc(r.Msg, 200), r.Log, r.Fetched, trunc(r.Value, 200), c.Job.Text[v])
}

func finishPipeline(prop, tier string, seed int64, only int, start time.Time, outs []Outcome, rule string, assumptions []string, minNontrivial int, extra map[string]interface{}) int {
	rep := &Report{Prop: prop, Tier: tier, Seed: seed, Outcomes: outs, Rule: rule, Assumptions: assumptions, MinNontrivial: minNontrivial, Start: start, Extra: extra}
	if only >= 0 {
		rep.MinNontrivial = 0
	}
	tot, failed := 0, 0
	var eg string
	for _, o := range outs {
		tot += o.Counters["variant_pairs_total"]
		failed += o.Counters["variant_pairs_failed"]
		if eg == "" && o.Counters["variant_pairs_failed"] > 0 {
			if m, ok := o.Replay.(map[string]interface{}); ok {
				eg, _ = m["variant_failure"].(string)
			}
		}
	}
	code := -1
	if failed*50 > tot {
		code = 2
		rep.Notes = append(rep.Notes, fmt.Sprintf("%d of %d (grammar, variant) pairs could not be generated, compiled or run", failed, tot))
	}
	if os.Getenv("VERIF_NODE") == "" {
		rep.Notes = append(rep.Notes, "ts_leg: skipped (no node >= 22 found); the claim covers the Go variants only")
	}
	rc := rep.Finish()
	if rc == 0 && code == 2 {
		fmt.Printf("INCONCLUSIVE property=%s: %d of %d (grammar, variant) pairs could not be generated, compiled or run, e.g. %s\n", prop, failed, tot, trunc(eg, 800))
		return 2
	}
	return rc
}
