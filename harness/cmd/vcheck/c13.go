package main

import (
	"fmt"
	"math/rand"
	"os"
	"path/filepath"
	"sort"
	"strings"
	"time"

	builder "github.com/acekingke/yaccgo/Builder"
	utils "github.com/acekingke/yaccgo/Utils"

	"verif/harness/gen"
	"verif/harness/render"
	"verif/harness/yx"
)

// C13: generation terminates on every input text.
type c13 struct{}

func init() { register(c13{}) }

func (c13) ID() string { return "C13" }

var c13Bases []string

func c13LoadBases() []string {
	if c13Bases != nil {
		return c13Bases
	}
	var res []string
	files, _ := filepath.Glob(filepath.Join(repoDir(), "examples", "*.y"))
	sort.Strings(files)
	for _, f := range files {
		b, err := os.ReadFile(f)
		if err == nil {
			res = append(res, string(b))
		}
	}
	// rendered specifications with hostile layout (fixed seeds: the same for every run)
	for i := 0; i < 7; i++ {
		r := rand.New(rand.NewSource(int64(1000 + i)))
		g := gen.Rich(r, gen.RichCfg{Names: i%2 == 0, IntTags: true})
		parts := render.Parts{Prologue: "package p\nimport \"fmt\"", Union: "\n\ts string\n\tt string\n\tn int\n\tm int\n", Epilogue: "\nfunc GetToken() int { return -1 }\n"}
		var o render.Options
		if i > 0 {
			o.Rng = r
		}
		res = append(res, render.Render(g, parts, o))
	}
	// hand-written nasties
	res = append(res, "%token <", "%type <", "%union {", "%{", "%left", "%%\nA:", "%token A\n%%\nS : A /* x", "%token A 'b\n%%\n", "%start\n%%", "%token A\n%prec\n%%\nS: A %prec")
	c13Bases = res
	return res
}

const c13Chunk = 48
const c13Batch = 50

func (c13) prefixCases() int {
	n := 0
	for _, b := range c13LoadBases() {
		n += (len(b) + c13Chunk) / c13Chunk
	}
	return n
}
func (p c13) editCases(tier string) int {
	if tier == "thorough" {
		return 16000
	}
	return 500
}
func (p c13) cliCases(tier string) int {
	if tier == "thorough" {
		return 600
	}
	return 32
}
func (p c13) NumCases(tier string) int { return p.prefixCases() + p.editCases(tier) + p.cliCases(tier) }
func (c13) Rule() string {
	return "liveness restated as bounded progress with logical budgets. inputs: every prefix of every base file (the repository's examples/*.y, 7 rendered specifications with hostile layout, 10 hand-written fragments such as '%token <'), random edits of base files (delete / insert a character from {}%'\"/*<>:|;$ and newline / swap / splice two files / truncate), all a few kilobytes at most. in-process leg: ParseAndBuild (generate and debug paths, then both code generators) under a CPU budget of 5 CPU-seconds per input sampled by a watchdog (normal: ~1 ms); an input that burns the budget is a violation with the goroutine dump as witness; an input on which the caller blocks without burning CPU is re-run through the real CLI. CLI leg: yaccgo generate go|typescript and yaccgo debug under RLIMIT_CPU=10s in separate processes; being killed by the CPU limit is the violation; a 60 s wall-clock watchdog only yields inconclusive; with -race (thorough) the lexer goroutine/parser pair is watched by the race detector. non-trivial = input on which yaccgo stops with a diagnostic (error value or panic) rather than succeeding; distinct by input text"
}
func (c13) Assumptions() []string {
	return []string{"a crash (panic, even a runtime error) is a form of stopping; only non-termination is judged here", "Go's 'all goroutines are asleep' abort counts as terminated"}
}
func (c13) DiedIsViolation() bool      { return true }
func (c13) MinNontrivial(t string) int { return 200 }
func (c13) Classify(o *Outcome) {
	switch o.Status {
	case "died":
		// the process crashed: that is termination, not a hang
		o.Detail = "(worker died: counts as terminated) " + o.Detail
		o.Status = "held"
		o.count("inputs_that_crashed_the_process", 1)
	case "budget":
		if c13Confirmed >= 2 {
			return // two budget violations were already confirmed through the CLI: the rest are not re-run
		}
		// confirm with the real binary in a fresh process: the in-process budget is sampled on a loaded
		// machine, the CLI under RLIMIT_CPU is the deciding observation
		in, _ := o.Replay.(map[string]interface{})
		text, ok := in["input"].(string)
		if !ok {
			o.Status = "inconclusive"
			o.Detail = "budget exceeded but the input in flight was not recorded\n" + o.Detail
			return
		}
		dir := filepath.Join(scratch(), fmt.Sprintf("c13-confirm-%d", o.Idx))
		os.MkdirAll(dir, 0755)
		defer os.RemoveAll(dir)
		os.WriteFile(filepath.Join(dir, "in.y"), []byte(text), 0644)
		for _, args := range [][]string{{"generate", "go", "in.y", "out.go"}, {"generate", "go", "-o", "-u", "in.y", "out.go"}, {"generate", "typescript", "in.y", "out.ts"}, {"debug", "in.y"}} {
			res := runCLI(10, 5*time.Minute, dir, args...)
			if res.Signal != "" || res.Exit == 137 || res.Exit == 152 {
				o.Detail = fmt.Sprintf("(budget) in-process run burnt 5 CPU-seconds and `yaccgo %v` on the same %d-byte input was killed by RLIMIT_CPU=10s (%s)\n%s", args, len(text), res.Signal, o.Detail)
				c13Confirmed++
				return // stays "budget" -> violation
			}
		}
		o.Status = "held"
		o.count("budget_exceeded_inprocess_but_cli_terminates(load)", 1)
	case "blocked":
		// re-run through the real CLI, which would end in the runtime's deadlock abort
		in, _ := o.Replay.(map[string]interface{})
		text, _ := in["input"].(string)
		dir := filepath.Join(scratch(), fmt.Sprintf("c13-blocked-%d", o.Idx))
		os.MkdirAll(dir, 0755)
		defer os.RemoveAll(dir)
		os.WriteFile(filepath.Join(dir, "in.y"), []byte(text), 0644)
		res := runCLI(10, 5*time.Minute, dir, "generate", "go", "in.y", "out.go")
		switch {
		case res.TimedOut:
			o.Status = "violated"
			o.Detail = "caller blocked in-process and the real CLI did not end within the wall-clock watchdog either:\n" + trunc(res.Out, 3000)
		case res.Signal != "":
			o.Status = "violated"
			o.Detail = "CLI killed by " + res.Signal + " (CPU limit) on an input that blocks in-process\n" + o.Detail
		default:
			o.Status = "held"
			o.count("blocked_inprocess_but_cli_terminates", 1)
		}
	}
}

var c13Confirmed int

var editAlphabet = []byte("{}%'\"/*<>:|;$\n \\-0a")

// characters outside ASCII that Unicode classifies as letters, digits, spaces or line separators
var editUnicode = []string{"é", "Σ", "٣", "１", "৪", "\u00a0", "\u2028", "\u3000", "ⅷ", "²", "\ufeff", "加", "\xff", "\xc3"}

func c13Edit(r *rand.Rand, bases []string) string {
	s := bases[r.Intn(len(bases))]
	n := 1 + r.Intn(3)
	for i := 0; i < n; i++ {
		if len(s) == 0 {
			s = "%"
		}
		p := r.Intn(len(s))
		switch r.Intn(6) {
		case 0:
			s = s[:p] + s[p+1:]
		case 1:
			ins := string(editAlphabet[r.Intn(len(editAlphabet))])
			if r.Intn(4) == 0 {
				ins = editUnicode[r.Intn(len(editUnicode))]
			}
			s = s[:p] + ins + s[p:]
		case 2:
			if p+1 < len(s) {
				b := []byte(s)
				b[p], b[p+1] = b[p+1], b[p]
				s = string(b)
			}
		case 3:
			o := bases[r.Intn(len(bases))]
			q := r.Intn(len(o) + 1)
			s = s[:p] + o[q:]
		case 4:
			s = s[:p]
		case 5:
			frag := []string{"%token <", "%type <", "%union", "%{", "/*", "'", "\"", "%prec", "%%", "{", "$", "%left <"}[r.Intn(12)]
			s = s[:p] + frag + s[p:]
		}
	}
	if len(s) > 6000 {
		s = s[:6000]
	}
	return s
}

// runOneInproc feeds one input to the generator in-process; returns an outcome class.
func c13RunInproc(text string, k int) string {
	beginInput(text)
	defer endInput()
	b := yx.Build(text, k%2 == 1)
	if !b.OK() {
		if b.RuntimeErr {
			return "stopped: runtime error panic"
		}
		if b.Panic != "" {
			return "stopped: message panic"
		}
		return "stopped: error value"
	}
	// code generation on top (generate path)
	path := filepath.Join(scratch(), fmt.Sprintf("c13-%d.out", os.Getpid()))
	var pan interface{}
	yx.CaptureStdout(func() {
		defer func() { pan = recover() }()
		utils.PackFlags = k%3 != 0
		utils.ObjectMode = k%5 == 0
		if k%4 == 0 {
			builder.TsGenFromString(text, path)
		} else {
			builder.TemplateGenFromString(text, path)
		}
	})
	utils.PackFlags, utils.ObjectMode = true, false
	os.Remove(path)
	if pan != nil {
		return "stopped: panic in code generation"
	}
	return "output produced"
}

func (p c13) Run(seed int64, tier string, idx int) Outcome {
	bases := c13LoadBases()
	r := caseRng(seed, "C13", idx)
	o := Outcome{Status: "held"}
	var inputs []string
	kind := "prefix"
	switch {
	case idx < p.prefixCases():
		k := idx
		for _, b := range bases {
			nc := (len(b) + c13Chunk) / c13Chunk
			if k < nc {
				for l := k * c13Chunk; l < (k+1)*c13Chunk && l <= len(b); l++ {
					inputs = append(inputs, b[:l])
				}
				break
			}
			k -= nc
		}
	case idx < p.prefixCases()+p.editCases(tier):
		kind = "edit"
		for i := 0; i < c13Batch; i++ {
			inputs = append(inputs, c13Edit(r, bases))
		}
	default:
		kind = "cli"
		for i := 0; i < 12; i++ {
			if i%3 == 0 {
				b := bases[r.Intn(len(bases))]
				inputs = append(inputs, b[:r.Intn(len(b)+1)])
			} else {
				inputs = append(inputs, c13Edit(r, bases))
			}
		}
	}
	classes := map[string]int{}
	stopped := 0
	if kind != "cli" {
		for k, in := range inputs {
			c := c13RunInproc(in, k+idx)
			classes[c]++
			if c != "output produced" {
				stopped++
			}
			o.count("eval:inprocess_inputs", 1)
		}
	} else {
		dir := filepath.Join(scratch(), fmt.Sprintf("c13-cli-%d-%d", os.Getpid(), idx))
		os.MkdirAll(dir, 0755)
		defer os.RemoveAll(dir)
		for k, in := range inputs {
			os.WriteFile(filepath.Join(dir, "in.y"), []byte(in), 0644)
			var args []string
			switch k % 4 {
			case 0:
				args = []string{"generate", "go", "in.y", "out.go"}
			case 1:
				args = []string{"generate", "typescript", "in.y", "out.ts"}
			case 2:
				args = []string{"debug", "in.y"}
			default:
				args = []string{"generate", "go", "-o", "-u", "in.y", "out.go"}
			}
			res := runCLI(10, 5*time.Minute, dir, args...)
			o.count("eval:cli_runs", 1)
			o.count("cli_cpu_ms_total", int(res.CPU*1000))
			if res.Signal == "killed" || res.Signal == "cpu time limit exceeded" || res.Exit == 137 || res.Exit == 152 {
				o.Status = "violated"
				o.Detail = fmt.Sprintf("yaccgo %v did not finish within 10 CPU-seconds (%s, %.1f CPU-s used) on a %d-byte input:\n%s", args, res.Signal, res.CPU, len(in), in)
				o.Replay = map[string]interface{}{"input": in, "args": args}
				return o
			}
			if res.TimedOut {
				o.Status = "inconclusive"
				o.Detail = fmt.Sprintf("wall-clock watchdog fired on yaccgo %v (CPU used %.2fs):\n%s", args, res.CPU, trunc(res.Out, 2000))
				o.Replay = map[string]interface{}{"input": in, "args": args}
				return o
			}
			if res.Exit != 0 || strings.Contains(res.Out, "panic:") {
				classes["cli: stopped with diagnostic"]++
				stopped++
			} else {
				classes["cli: output produced"]++
			}
		}
	}
	for c, n := range classes {
		o.count("outcome: "+c, n)
	}
	o.Nontrivial = stopped > 0
	o.Hash = hashOf(strings.Join(inputs, "\x01"))
	o.count("inputs_stopped_with_diagnostic", stopped)
	if idx == 3 || idx == p.prefixCases()+1 {
		o.Sample = map[string]interface{}{"kind": kind, "inputs": len(inputs), "example_input": trunc(inputs[len(inputs)-1], 300), "classes": classes}
	}
	return o
}

// c13RaceLeg repeats the quick workload with workers built with -race: the lexer
// goroutine and the parser communicate through an unbuffered channel and share the
// lexer struct. Reports are collected (halt_on_error=0), counted by report block and
// deduplicated by the pair of outermost yaccgo functions.
func c13RaceLeg(p InprocProp, seed int64) []Outcome {
	dir := filepath.Join(scratch(), "race-leg")
	os.MkdirAll(dir, 0755)
	logPrefix := filepath.Join(dir, "racelog")
	res := runInprocWith(os.Getenv("VERIF_RACE_BIN"), []string{"GORACE=halt_on_error=0 log_path=" + logPrefix}, p, "quick", seed, dir, -1)
	files, _ := filepath.Glob(logPrefix + ".*")
	var all strings.Builder
	for _, f := range files {
		b, _ := os.ReadFile(f)
		all.Write(b)
	}
	text := all.String()
	n := strings.Count(text, "WARNING: DATA RACE")
	inputs := 0
	for _, o := range res.outcomes {
		inputs += o.Counters["eval:inprocess_inputs"]
	}
	o := Outcome{Idx: 2000000, Status: "held", Hash: "race-leg", Nontrivial: true}
	o.count("race_leg:inputs_run_under_race_detector", inputs)
	o.count("race_leg:report_blocks", n)
	o.count("race_leg:worker_restarts", res.restarts)
	if n > 0 {
		// dedupe by the first yaccgo frame of each of the two stacks
		seen := map[string]int{}
		for _, blk := range strings.Split(text, "WARNING: DATA RACE")[1:] {
			var frames []string
			for _, ln := range strings.Split(blk, "\n") {
				ln = strings.TrimSpace(ln)
				if strings.HasPrefix(ln, "github.com/acekingke/yaccgo/") {
					frames = append(frames, strings.SplitN(ln, "(", 2)[0])
					if len(frames) == 2 {
						break
					}
				}
			}
			seen[strings.Join(frames, " <-> ")]++
		}
		o.count("race_leg:distinct_reports", len(seen))
		if strings.Contains(text, "github.com/acekingke/yaccgo/Parser") {
			o.Status = "violated"
			o.Detail = fmt.Sprintf("race detector: %d report blocks (%d distinct by outermost yaccgo frames %v) between the lexer goroutine and the parser\n%s", n, len(seen), seen, trunc(text, 4000))
		} else {
			o.Status = "inconclusive"
			o.Detail = "race reports outside yaccgo's packages (harness): " + trunc(text, 2000)
		}
	}
	return []Outcome{o}
}
