package main

import (
	"bufio"
	"crypto/sha1"
	"encoding/hex"
	"encoding/json"
	"fmt"
	"math/rand"
	"os"
	"os/exec"
	"path/filepath"
	"runtime"
	"runtime/pprof"
	"sort"
	"strconv"
	"strings"
	"sync"
	"sync/atomic"
	"syscall"
	"time"
)

// Outcome is the verdict of one case.
type Outcome struct {
	Idx        int            `json:"idx"`
	Status     string         `json:"status"` // held | violated | inconclusive | skipped | died | budget
	Detail     string         `json:"detail,omitempty"`
	Nontrivial bool           `json:"nontrivial,omitempty"`
	Sub        int            `json:"sub,omitempty"`  // number of distinct non-trivial sub-cases inside this case
	Hash       string         `json:"hash,omitempty"` // identity of the case for distinct counting
	Counters   map[string]int `json:"counters,omitempty"`
	Sample     interface{}    `json:"sample,omitempty"`
	Replay     interface{}    `json:"replay,omitempty"` // what is needed to look at the case again
	Known      string         `json:"known,omitempty"`
}

func (o *Outcome) count(k string, n int) {
	if o.Counters == nil {
		o.Counters = map[string]int{}
	}
	o.Counters[k] += n
}

// InprocProp is a property decided by independent in-process cases.
type InprocProp interface {
	ID() string
	NumCases(tier string) int
	Run(seed int64, tier string, idx int) Outcome
	Rule() string
	Assumptions() []string
	// DiedIsViolation: a case that kills or stalls the worker violates the property
	DiedIsViolation() bool
	MinNontrivial(tier string) int
}

var inprocProps = map[string]InprocProp{}

func register(p InprocProp) { inprocProps[p.ID()] = p }

func caseRng(seed int64, prop string, idx int) *rand.Rand {
	h := sha1.Sum([]byte(fmt.Sprintf("%d/%s/%d", seed, prop, idx)))
	var s int64
	for i := 0; i < 8; i++ {
		s = s<<8 | int64(h[i])
	}
	return rand.New(rand.NewSource(s))
}

func hashOf(parts ...string) string {
	h := sha1.Sum([]byte(strings.Join(parts, "\x00")))
	return hex.EncodeToString(h[:8])
}

func envInt(name string, def int) int {
	if v := os.Getenv(name); v != "" {
		if n, err := strconv.Atoi(v); err == nil {
			return n
		}
	}
	return def
}

func cpuSeconds() float64 {
	var ru syscall.Rusage
	syscall.Getrusage(syscall.RUSAGE_SELF, &ru)
	return float64(ru.Utime.Sec) + float64(ru.Utime.Usec)/1e6 + float64(ru.Stime.Sec) + float64(ru.Stime.Usec)/1e6
}

// ---------------------------------------------------------------- worker

// cpuBudgetPerCase: CPU seconds one case (or one announced input) may burn. For C13 this is the
// verdict-carrying budget (5 s where milliseconds are normal); for the other properties it is
// only a safety net against a spinning case and is set generously.
var cpuBudgetPerCase = 5.0

// currentInputPath: properties that feed hostile inputs write each input here
// before handing it to the code under test, so that a dead worker's last input is known.
var currentInputPath string

func noteInput(text string) {
	if currentInputPath != "" {
		os.WriteFile(currentInputPath, []byte(text), 0644)
	}
}

// inputStart is set by noteInput-style callers that want blocked-goroutine detection.
var inputStartWall atomic.Value // time.Time
var inputStartCPU atomic.Value  // float64

func beginInput(text string) {
	noteInput(text)
	inputStartCPU.Store(cpuSeconds())
	inputStartWall.Store(time.Now())
}
func endInput() { inputStartWall.Store(time.Time{}) }

func workerMain(args []string) {
	// args: prop tier seed shard nshards from outfile progressfile
	prop := inprocProps[args[0]]
	if args[0] != "C13" {
		cpuBudgetPerCase = 120.0
	}
	tier := args[1]
	seed, _ := strconv.ParseInt(args[2], 10, 64)
	shard, _ := strconv.Atoi(args[3])
	nshards, _ := strconv.Atoi(args[4])
	from, _ := strconv.Atoi(args[5])
	only := -1
	if len(args) > 8 {
		only, _ = strconv.Atoi(args[8])
	}
	out, err := os.OpenFile(args[6], os.O_APPEND|os.O_CREATE|os.O_WRONLY, 0644)
	if err != nil {
		panic(err)
	}
	prog, err := os.OpenFile(args[7], os.O_APPEND|os.O_CREATE|os.O_WRONLY, 0644)
	if err != nil {
		panic(err)
	}
	currentInputPath = args[7] + ".input"
	var curIdx int64 = -1
	var curStart atomic.Value
	curStart.Store(cpuSeconds())
	// CPU budget watchdog (logical budget: CPU seconds of this process while one case is in flight)
	go func() {
		for {
			time.Sleep(100 * time.Millisecond)
			idx := atomic.LoadInt64(&curIdx)
			if idx < 0 {
				continue
			}
			// one input that sits for 45 s of wall clock having used almost no CPU is blocked, not looping:
			// give the case up (the real CLI would end in Go's deadlock abort); the property decides what that means
			if t, ok := inputStartWall.Load().(time.Time); ok && !t.IsZero() && time.Since(t) > 45*time.Second {
				if c, ok := inputStartCPU.Load().(float64); ok && cpuSeconds()-c < 0.3 {
					fmt.Fprintf(prog, "BLOCKED %d\n", idx)
					f, _ := os.Create(args[7] + ".stacks")
					if f != nil {
						pprof.Lookup("goroutine").WriteTo(f, 2)
						f.Close()
					}
					os.Exit(4)
				}
			}
			budget := cpuBudgetPerCase
			if c, ok := inputStartCPU.Load().(float64); ok {
				if t, ok := inputStartWall.Load().(time.Time); ok && !t.IsZero() {
					// per-input budget when the property announces its inputs
					if cpuSeconds()-c > cpuBudgetPerCase {
						budget = 0
					} else {
						budget = 1e9
					}
				}
			}
			if cpuSeconds()-curStart.Load().(float64) > budget && atomic.LoadInt64(&curIdx) == idx {
				fmt.Fprintf(prog, "BUDGET %d\n", idx)
				f, _ := os.Create(args[7] + ".stacks")
				if f != nil {
					pprof.Lookup("goroutine").WriteTo(f, 2)
					f.Close()
				}
				os.Exit(3)
			}
		}
	}()
	n := prop.NumCases(tier)
	w := bufio.NewWriter(out)
	for idx := from; idx < n; idx++ {
		if only >= 0 && idx != only {
			continue
		}
		if only < 0 && idx%nshards != shard {
			continue
		}
		fmt.Fprintf(prog, "BEGIN %d\n", idx)
		curStart.Store(cpuSeconds())
		atomic.StoreInt64(&curIdx, int64(idx))
		o := prop.Run(seed, tier, idx)
		atomic.StoreInt64(&curIdx, -1)
		o.Idx = idx
		b, _ := json.Marshal(o)
		w.Write(b)
		w.WriteString("\n")
		w.Flush()
		if idx%64 == 0 {
			// leaked lexer goroutines of failed parses keep their inputs alive; nothing to do but note it
			runtime.GC()
		}
	}
	fmt.Fprintf(prog, "DONE\n")
}

// ---------------------------------------------------------------- parent

type runResult struct {
	outcomes []Outcome
	restarts int
}

func runInproc(prop InprocProp, tier string, seed int64, scratch string, only int) runResult {
	self, _ := os.Executable()
	return runInprocWith(self, nil, prop, tier, seed, scratch, only)
}

// runInprocWith runs the workers from another binary (e.g. a -race build) with extra environment.
func runInprocWith(self string, extraEnv []string, prop InprocProp, tier string, seed int64, scratch string, only int) runResult {
	nshards := runtime.NumCPU()
	if nshards > 16 {
		nshards = 16
	}
	if only >= 0 {
		nshards = 1
	}
	n := prop.NumCases(tier)
	if n < nshards {
		nshards = n
	}
	var mu sync.Mutex
	var res runResult
	var wg sync.WaitGroup
	for sh := 0; sh < nshards; sh++ {
		wg.Add(1)
		go func(sh int) {
			defer wg.Done()
			outf := filepath.Join(scratch, fmt.Sprintf("out.%d.jsonl", sh))
			progf := filepath.Join(scratch, fmt.Sprintf("prog.%d", sh))
			from := 0
			for attempt := 0; attempt < 200; attempt++ {
				os.Remove(progf)
				args := []string{"worker", prop.ID(), tier, fmt.Sprint(seed), fmt.Sprint(sh), fmt.Sprint(nshards), fmt.Sprint(from), outf, progf}
				if only >= 0 {
					args = append(args, fmt.Sprint(only))
				}
				cmd := exec.Command(self, args...)
				cmd.Env = append(os.Environ(), extraEnv...)
				errf, _ := os.Create(progf + ".stderr")
				cmd.Stderr = errf
				cmd.Stdout = errf
				// generous wall-clock watchdog; its firing is inconclusive, never a verdict
				done := make(chan error, 1)
				cmd.Start()
				go func() { done <- cmd.Wait() }()
				var err error
				timedOut := false
				select {
				case err = <-done:
				case <-time.After(45 * time.Minute):
					cmd.Process.Signal(syscall.SIGQUIT)
					time.Sleep(2 * time.Second)
					cmd.Process.Kill()
					err = <-done
					timedOut = true
				}
				errf.Close()
				pb, _ := os.ReadFile(progf)
				lines := strings.Split(strings.TrimSpace(string(pb)), "\n")
				last := lines[len(lines)-1]
				if err == nil && last == "DONE" {
					break
				}
				// attribute the death to the in-flight case
				idx := -1
				status := "died"
				for i := len(lines) - 1; i >= 0; i-- {
					if strings.HasPrefix(lines[i], "BUDGET ") {
						status = "budget"
					}
					if strings.HasPrefix(lines[i], "BLOCKED ") {
						status = "blocked"
					}
					if strings.HasPrefix(lines[i], "BEGIN ") {
						idx, _ = strconv.Atoi(strings.TrimPrefix(lines[i], "BEGIN "))
						break
					}
				}
				eb, _ := os.ReadFile(progf + ".stderr")
				tail := string(eb)
				if len(tail) > 3000 {
					tail = tail[:1500] + "\n...\n" + tail[len(tail)-1500:]
				}
				if sb, e := os.ReadFile(progf + ".stacks"); e == nil {
					st := string(sb)
					if len(st) > 6000 {
						st = st[:6000]
					}
					tail += "\n--- goroutine stacks at budget expiry ---\n" + st
					os.Remove(progf + ".stacks")
				}
				if ib, e := os.ReadFile(progf + ".input"); e == nil {
					tail += "\n--- input in flight ---\n" + string(ib)
				}
				if timedOut {
					status = "inconclusive"
					tail = "wall-clock watchdog fired\n" + tail
				}
				mu.Lock()
				res.restarts++
				mu.Unlock()
				if idx < 0 {
					mu.Lock()
					res.outcomes = append(res.outcomes, Outcome{Idx: -1, Status: "inconclusive", Detail: "worker died before any case: " + fmt.Sprint(err) + "\n" + tail})
					mu.Unlock()
					break
				}
				dead := Outcome{Idx: idx, Status: status, Detail: fmt.Sprintf("worker exit: %v\n%s", err, tail)}
				if ib, e := os.ReadFile(progf + ".input"); e == nil {
					dead.Replay = map[string]interface{}{"input": string(ib)}
				}
				ob, _ := json.Marshal(dead)
				f, _ := os.OpenFile(outf, os.O_APPEND|os.O_CREATE|os.O_WRONLY, 0644)
				f.Write(append(ob, '\n'))
				f.Close()
				from = idx + 1
				if only >= 0 {
					break
				}
			}
			f, err := os.Open(outf)
			if err != nil {
				return
			}
			defer f.Close()
			sc := bufio.NewScanner(f)
			sc.Buffer(make([]byte, 1<<20), 1<<28)
			var outs []Outcome
			for sc.Scan() {
				var o Outcome
				if json.Unmarshal(sc.Bytes(), &o) == nil {
					outs = append(outs, o)
				}
			}
			mu.Lock()
			res.outcomes = append(res.outcomes, outs...)
			mu.Unlock()
		}(sh)
	}
	wg.Wait()
	sort.Slice(res.outcomes, func(i, j int) bool { return res.outcomes[i].Idx < res.outcomes[j].Idx })
	return res
}
