package main

import (
	"fmt"
	"math/rand"
	"os"
	"sync"
	"time"

	"verif/harness/ref"
	"verif/harness/render"
	"verif/harness/spec"
	"verif/harness/yx"
)

// Coverage-guided workload selection ("pre-screening"). A candidate grammar is
// built in-process by the real yaccgo and its dense table is simulated next to
// the reference table on a few hundred candidate inputs. Inputs on which the
// two simulations differ are handed to the generated-parser campaign as
// priority inputs, and grammars that have such inputs are preferred. This only
// chooses WHAT is run: every verdict still comes from the records of the real
// generated parsers judged by the independent oracles.

var prioMu sync.Mutex
var prioInputs = map[*spec.Grammar][][]int{}

func setPrio(g *spec.Grammar, in [][]int) {
	prioMu.Lock()
	prioInputs[g] = in
	prioMu.Unlock()
}
func getPrio(g *spec.Grammar) [][]int {
	prioMu.Lock()
	defer prioMu.Unlock()
	return prioInputs[g]
}

// simGTable runs yaccgo's dense table on tokens given as yaccgo symbol ids.
func simGTable(gt [][]int, rules []ref.Rule, eof int, tokens []int, maxSteps int) (accept bool, reds []int, fetched int, limit bool) {
	return simLookup(len(gt), len(gt[0]), func(s, a int) int { return gt[s][a] }, rules, eof, tokens, maxSteps)
}

// simLookup runs an LR driver over an arbitrary (state, symbol) -> action function.
func simLookup(n, nsym int, look func(s, a int) int, rules []ref.Rule, eof int, tokens []int, maxSteps int) (accept bool, reds []int, fetched int, limit bool) {
	defer func() {
		if e := recover(); e != nil {
			accept, limit = false, false
			reds = append(reds, -999) // lookup panicked: certainly differs from the reference
		}
	}()
	errc, accc := n+100, n+200
	stack := []int{0}
	pos := 0
	next := func() int {
		fetched++
		if pos < len(tokens) {
			pos++
			return tokens[pos-1]
		}
		pos++
		return eof
	}
	la := next()
	for steps := 0; ; steps++ {
		if steps > maxSteps {
			return false, reds, fetched, true
		}
		st := stack[len(stack)-1]
		if st < 0 || st >= n || la < 0 || la >= nsym {
			return false, reds, fetched, false
		}
		a := look(st, la)
		switch {
		case a == errc:
			return false, reds, fetched, false
		case a == accc:
			return true, reds, fetched, false
		case a > 0:
			stack = append(stack, a)
			la = next()
		default:
			r := -a
			if r <= 0 || r >= len(rules) || len(stack)-1 < len(rules[r].Rhs) {
				return false, reds, fetched, false
			}
			stack = stack[:len(stack)-len(rules[r].Rhs)]
			top := stack[len(stack)-1]
			to := look(top, rules[r].Lhs)
			if to <= 0 || to >= n {
				return false, reds, fetched, false
			}
			stack = append(stack, to)
			reds = append(reds, r)
		}
	}
}

// prescreen returns inputs (spec token indices) on which yaccgo's table and
// the reference table behave differently; nil if none was found (or the
// grammar could not be analysed).
func prescreen(g *spec.Grammar, r *rand.Rand) [][]int {
	c := &gcase{G: g}
	c.prepare()
	if c.Tab == nil || !c.Clean {
		return nil
	}
	gg := *g
	gg.NoAction = true
	text := render.Render(&gg, plainParts, render.Options{})
	done := make(chan *yx.Built, 1)
	go func() { done <- yx.Build(text, false) }()
	var b *yx.Built
	select {
	case b = <-done:
	case <-time.After(3 * time.Minute):
		return nil
	}
	if !b.OK() {
		return nil
	}
	rgY := yx.ToRef(b.Root)
	// token index -> yaccgo symbol id
	tok := make([]int, len(g.Tokens))
	for i, t := range g.Tokens {
		sy := b.Root.G.SymbolsMap[t.YName()]
		if sy == nil {
			tok[i] = 0
		} else {
			tok[i] = int(sy.ID)
		}
	}
	if len(rgY.Rules) != len(c.RG.Rules) {
		return nil
	}
	c.genInputs(r, 250, 80)
	var res [][]int
	for _, in := range c.Inputs {
		ry := make([]int, len(in))
		for i, t := range in {
			if t < 0 {
				ry[i] = 0
			} else {
				ry[i] = tok[t]
			}
		}
		sim := c.Tab.Sim(c.refTokens(in), 3000)
		if sim.StepLimit {
			continue
		}
		acc, reds, fetched, lim := simGTable(b.Root.GTable, rgY.Rules, 1, ry, 6000)
		differs := lim || acc != sim.Accept || fmt.Sprint(reds) != fmt.Sprint(sim.Reds) || fetched != sim.Fetched
		if !differs && b.Root.NeedPacked {
			// the packed arrays, read the documented way
			acc, reds, fetched, lim = simLookup(len(b.Root.GTable), len(b.Root.GTable[0]), func(s, a int) int { return packedLookup(b, s, a) }, rgY.Rules, 1, ry, 6000)
			differs = lim || acc != sim.Accept || fmt.Sprint(reds) != fmt.Sprint(sim.Reds) || fetched != sim.Fetched
		}
		if differs {
			if os.Getenv("VERIF_DEBUG_PRESCREEN") != "" && len(res) == 0 {
				fmt.Fprintf(os.Stderr, "PRESCREEN DIFF input %v: ref accept=%v reds=%v fetched=%d; yaccgo accept=%v reds=%v fetched=%d lim=%v\n%s\n", in, sim.Accept, sim.Reds, sim.Fetched, acc, reds, fetched, lim, text)
			}
			res = append(res, in)
			if len(res) >= 40 {
				break
			}
		}
	}
	return res
}

// withPrescreen wraps a grammar generator: up to k candidates are drawn and
// the first one with differing inputs is taken (with those inputs as priority
// inputs); otherwise the first candidate is used.
func withPrescreen(k int, mk func(r *rand.Rand, i int) *spec.Grammar) func(r *rand.Rand, i int) *spec.Grammar {
	return func(r *rand.Rand, i int) *spec.Grammar {
		var first *spec.Grammar
		for try := 0; try < k; try++ {
			g := mk(r, i)
			if first == nil {
				first = g
			}
			if len(g.Rules) > 200 {
				return g // size families: taken as they come
			}
			if in := prescreen(g, r); len(in) > 0 {
				setPrio(g, in)
				return g
			}
			if i < len(families) {
				break
			}
		}
		return first
	}
}
