package main

import (
	"fmt"
	"sort"
	"strings"

	"verif/harness/ref"
	"verif/harness/render"
	"verif/harness/spec"
	"verif/harness/yx"
)

// C03: lookahead sets are exactly LALR(1); conflicts reported iff they exist.
type c03 struct{}

func init() { register(c03{}) }

func (c03) ID() string { return "C03" }
func (c03) regularCases(tier string) int {
	if tier == "thorough" {
		return len(families) + 250000
	}
	return len(families) + 4000
}
func (p c03) NumCases(tier string) int               { return p.regularCases(tier) + tinyCases(tier) }
func (c03) Extra(tier string) map[string]interface{} { return tinyExtra(tier) }
func (c03) Rule() string {
	return "case = one grammar (curated LR(0)/SLR/LALR/NQLALR/LR(1) separating families, then random grammars with and without precedence lines) built by the real ParseAndBuild; hook VerifReduceLookaheads gives yaccgo's lookahead set per (state, rule); compared with the union of canonical LR(1) lookaheads over same-core states (reference computed from yaccgo's own rule list, states matched by item set); conflict warnings on stdout compared with the reference's unresolved two-candidate cells; non-trivial = at least one reduction whose LALR set is a proper subset of the SLR FOLLOW set, or a conflict cell; distinct by grammar text"
}
func (c03) Assumptions() []string {
	return []string{"reference canonical-LR(1)-merge construction is correct (unit-tested, cross-checked with Earley through LR simulation)", "cells with >=3 candidate actions and reduce/reduce cells where both rules carry a precedence are not judged"}
}
func (c03) DiedIsViolation() bool      { return false }
func (c03) MinNontrivial(t string) int { return 100 }

func (c03) Run(seed int64, tier string, idx int) Outcome {
	p := c03{}
	reg := p.regularCases(tier)
	if idx >= reg {
		return tinyBatch("C03", idx-reg, true, p.runOn)
	}
	r := caseRng(seed, "C03", idx)
	cfg := stdCfg
	if idx%3 == 0 {
		cfg = bigCfg
	}
	g := pickGrammar(r, idx, true, cfg)
	return p.runOn(g, idx)
}

func (c03) runOn(g *spec.Grammar, idx int) Outcome {
	g.NoAction = true
	text := render.Render(g, plainParts, render.Options{})
	o := Outcome{Status: "held", Replay: map[string]interface{}{"grammar": text}}
	b := yx.Build(text, false)
	if !b.OK() {
		o.Status = "inconclusive"
		o.Detail = fmt.Sprintf("usable grammar not built: err=%v panic=%s", b.Err, b.Panic)
		return o
	}
	rg := yx.ToRef(b.Root)
	lr0 := ref.BuildLR0(rg, 1990)
	if lr0 == nil {
		o.Status = "skipped"
		return o
	}
	smap := stateMap(b, lr0)
	if smap == nil {
		o.Status = "inconclusive"
		o.Detail = "state collections differ (C09's business)"
		return o
	}
	la := ref.BuildLALR(lr0, 20000)
	if la == nil {
		o.Status = "inconclusive"
		o.Detail = "reference LR(1) collection exceeds 20000 states"
		return o
	}
	o.count("lr1_states", la.LR1States)
	o.count("lr0_states", len(lr0.States))
	// --- lookahead sets
	got := map[[2]int][]int{}
	for _, e := range b.Root.VerifReduceLookaheads() {
		key := [2]int{smap[e.State], e.Rule}
		if _, dup := got[key]; dup {
			o.Status = "violated"
			o.Detail = fmt.Sprintf("reduction (state %d, rule %d) listed twice", e.State, e.Rule)
			return o
		}
		got[key] = e.LA
	}
	proper := 0
	follow := slrFollow(rg)
	for rs, m := range la.LA {
		for rule, bits := range m {
			ys, ok := got[[2]int{rs, rule}]
			if !ok {
				o.Status = "violated"
				o.Detail = fmt.Sprintf("no lookahead set for reduction %q in state %v\ngrammar:\n%s", rg.RuleString(rule), describeItems(rg, lr0.States[rs].Items), text)
				return o
			}
			yb := ref.NewBits(rg.NSym)
			for _, s := range ys {
				if s < 0 || s >= rg.NSym {
					o.Status = "violated"
					o.Detail = fmt.Sprintf("lookahead symbol id %d out of range", s)
					return o
				}
				yb.Set(s)
			}
			o.count("reductions_compared", 1)
			if !yb.Equal(bits) {
				o.Status = "violated"
				o.Detail = fmt.Sprintf("lookahead set of %q in state %v: yaccgo %v, LALR(1) %v\ngrammar:\n%s",
					rg.RuleString(rule), describeItems(rg, lr0.States[rs].Items), names(rg, yb.List()), names(rg, bits.List()), text)
				return o
			}
			if rule != 0 && !bits.Equal(follow[rg.Rules[rule].Lhs]) {
				proper++
			}
			delete(got, [2]int{rs, rule})
		}
	}
	if len(got) != 0 {
		o.Status = "violated"
		o.Detail = fmt.Sprintf("yaccgo attaches lookaheads to %d reductions that are not complete items of their state", len(got))
		return o
	}
	o.count("reductions_lalr_smaller_than_follow", proper)
	// --- conflict report
	tab := ref.BuildTable(la)
	warned := map[[2]int]bool{}
	ws := yx.ParseWarnings(b.Stdout)
	for _, w := range ws {
		if w.State < 0 || w.State >= len(smap) {
			o.Status = "violated"
			o.Detail = "unparsable or out-of-range conflict warning: " + trunc(b.Stdout, 300)
			return o
		}
		warned[[2]int{smap[w.State], w.Sym}] = true
	}
	must := map[[2]int]*ref.Cell{}
	dc := map[[2]int]bool{}
	for _, c := range tab.Cells {
		k := [2]int{c.State, c.Sym}
		switch {
		case c.DontCare:
			dc[k] = true
			o.count("cells_dontcare", 1)
		case c.Unresolved:
			must[k] = c
			o.count("cells_unresolved", 1)
		default:
			o.count("cells_resolved_by_precedence", 1)
		}
	}
	for k, c := range must {
		if !warned[k] {
			o.Status = "violated"
			o.Detail = fmt.Sprintf("no conflict warning for state %v on %s (shift %d, reduces %v), which precedence does not resolve\nstdout: %s\ngrammar:\n%s",
				describeItems(rg, lr0.States[c.State].Items), rg.Names[c.Sym], c.Shift, c.Reduces, trunc(b.Stdout, 400), text)
			return o
		}
	}
	for k := range warned {
		if must[k] == nil && !dc[k] {
			o.Status = "violated"
			o.Detail = fmt.Sprintf("conflict warning for state %v on %s, but the LALR(1) automaton has no unresolved conflict there\nstdout: %s\ngrammar:\n%s",
				describeItems(rg, lr0.States[k[0]].Items), rg.Names[k[1]], trunc(b.Stdout, 400), text)
			return o
		}
	}
	o.count("warnings", len(ws))
	o.count("grammars_built", 1)
	if len(tab.Cells) == 0 {
		o.count("grammars_lalr1", 1)
	}
	o.Nontrivial = proper > 0 || len(tab.Cells) > 0
	o.Hash = hashOf(text)
	if idx == 4 || idx == 5 || idx == len(families)+1 {
		o.Sample = map[string]interface{}{"grammar": trunc(text, 500), "lr0_states": len(lr0.States), "lr1_states": la.LR1States,
			"reductions_with_LA_smaller_than_FOLLOW": proper, "conflict_cells": len(tab.Cells), "warnings": len(ws)}
	}
	return o
}

func names(g *ref.Grammar, ids []int) []string {
	res := []string{}
	for _, i := range ids {
		res = append(res, g.Names[i])
	}
	sort.Strings(res)
	return res
}

// slrFollow computes FOLLOW sets (for the non-triviality rule only).
func slrFollow(g *ref.Grammar) []ref.Bits {
	f := make([]ref.Bits, g.NSym)
	for i := range f {
		f[i] = ref.NewBits(g.NSym)
	}
	f[g.Aug].Set(g.EOF)
	for ch := true; ch; {
		ch = false
		for _, r := range g.Rules {
			for i, s := range r.Rhs {
				if !g.IsNT[s] {
					continue
				}
				if f[s].Or(g.FirstOfSeq(r.Rhs[i+1:], f[r.Lhs])) {
					ch = true
				}
			}
		}
	}
	return f
}

var _ = strings.Join
