package main

import (
	"fmt"

	"verif/harness/gen"
	"verif/harness/ref"
	"verif/harness/render"
	"verif/harness/spec"
	"verif/harness/yx"
)

// C04 (table level): precedence assignment and conflict resolution of every
// two-candidate cell; as a by-product every non-don't-care cell of the dense
// table is compared with the reference table.
type c04in struct{}

func (c04in) NumCases(tier string) int {
	if tier == "thorough" {
		return len(families) + 40000
	}
	return len(families) + 3000
}

func decodeCell(v, nStates int) (kind, arg int) {
	switch {
	case v == nStates+100:
		return ref.ActErr, 0
	case v == nStates+200:
		return ref.ActAccept, 0
	case v < 0:
		return ref.ActReduce, -v
	default:
		return ref.ActShift, v
	}
}

// checkPrecAssignment compares yaccgo's precedence data with the specification.
func checkPrecAssignment(g *spec.Grammar, b *yx.Built) string {
	lv, as := g.TokPrec()
	G := b.Root.G
	for i, t := range g.Tokens {
		if t.Decl == "undeclared" || t.IsEOFAlias() {
			continue
		}
		sy := G.SymbolsMap[t.YName()]
		if sy == nil {
			if t.Decl == "none" && !tokenUsed(g, i) {
				continue // a literal that is neither declared nor used does not exist for yaccgo
			}
			return "token " + t.Src() + " missing from the symbol table"
		}
		if lv[i] == 0 {
			if sy.Prec > 0 {
				return fmt.Sprintf("token %s has no precedence declared but got level %d", t.Src(), sy.Prec)
			}
			continue
		}
		// levels: only the order matters
		for j := range g.Tokens {
			if lv[j] == 0 || j == i {
				continue
			}
			sj := G.SymbolsMap[g.Tokens[j].YName()]
			if sj == nil {
				continue
			}
			if (lv[i] < lv[j]) != (sy.Prec < sj.Prec) || (lv[i] == lv[j]) != (sy.Prec == sj.Prec) {
				return fmt.Sprintf("precedence order of %s (declared level %d, got %d) and %s (declared level %d, got %d) differs from the declarations",
					t.Src(), lv[i], sy.Prec, g.Tokens[j].Src(), lv[j], sj.Prec)
			}
		}
		got := ref.AssocNon
		switch int(sy.PrecType) {
		case 0:
			got = ref.AssocLeft
		case 1:
			got = ref.AssocRight
		}
		if got != as[i] {
			return fmt.Sprintf("token %s declared with associativity %d, yaccgo has %d", t.Src(), as[i], got)
		}
	}
	for k := range g.Rules {
		pt := g.RulePrecTok(k)
		pr := G.ProductoinRules[k+1]
		want := ""
		if pt >= 0 && lv[pt] != 0 {
			want = g.Tokens[pt].YName()
		}
		got := ""
		if pr.PrecSymbol != nil && pr.PrecSymbol.Prec > 0 {
			got = pr.PrecSymbol.Name
		}
		if want != got {
			return fmt.Sprintf("rule %d takes its precedence from %q, expected %q", k, got, want)
		}
	}
	return ""
}

func (p c04in) Run(seed int64, tier string, idx int) Outcome {
	r := caseRng(seed, "C04", idx)
	var g *spec.Grammar
	for {
		if idx < len(families) {
			g = pickGrammar(r, idx, true, stdCfg)
		} else if idx%2 == 0 {
			g = gen.OpTable(r)
		} else {
			g = gen.RandUsable(r, stdCfg)
		}
		if !g.PrecAmbiguous() {
			break
		}
		if idx < len(families) {
			return Outcome{Status: "skipped"}
		}
	}
	g.NoAction = true
	text := render.Render(g, plainParts, render.Options{})
	o := Outcome{Status: "held", Replay: map[string]interface{}{"grammar": text}}
	b := yx.Build(text, false)
	if !b.OK() {
		o.Status = "inconclusive"
		o.Detail = fmt.Sprintf("usable grammar not built: err=%v panic=%s\n%s", b.Err, b.Panic, text)
		return o
	}
	if msg := checkPrecAssignment(g, b); msg != "" {
		o.Status = "violated"
		o.Detail = msg + "\ngrammar:\n" + text
		return o
	}
	rg := yx.ToRef(b.Root)
	lr0 := ref.BuildLR0(rg, 1990)
	if lr0 == nil {
		o.Status = "skipped"
		return o
	}
	smap := stateMap(b, lr0)
	if smap == nil {
		o.Status = "inconclusive"
		o.Detail = "state collections differ (C09's business)"
		return o
	}
	la := ref.BuildLALR(lr0, 20000)
	if la == nil {
		o.Status = "inconclusive"
		o.Detail = "reference LR(1) collection too large"
		return o
	}
	tab := ref.BuildTable(la)
	inv := make([]int, len(smap))
	for y, rs := range smap {
		inv[rs] = y
	}
	GT := b.Root.GTable
	n := len(GT)
	dc := map[[2]int]bool{}
	cellOf := map[[2]int]*ref.Cell{}
	for _, c := range tab.Cells {
		cellOf[[2]int{c.State, c.Sym}] = c
		if c.DontCare {
			dc[[2]int{c.State, c.Sym}] = true
		}
	}
	conf := 0
	for rs := range lr0.States {
		y := inv[rs]
		for s := 0; s < rg.NSym; s++ {
			if dc[[2]int{rs, s}] {
				o.count("cells_dontcare", 1)
				continue
			}
			kind, arg := decodeCell(GT[y][s], n)
			var wk, wa int
			if rg.IsNT[s] {
				wk, wa = ref.ActErr, 0
				if to := tab.Goto[rs][s]; to >= 0 {
					wk, wa = ref.ActShift, to
				}
			} else {
				a := tab.Act[rs][s]
				wk, wa = a.Kind, a.Arg
			}
			if kind == ref.ActShift {
				if arg >= len(smap) {
					o.Status = "violated"
					o.Detail = fmt.Sprintf("cell (state %d, %s) holds %d, not a state/rule/error/accept code", y, rg.Names[s], GT[y][s])
					return o
				}
				arg = smap[arg]
			}
			c := cellOf[[2]int{rs, s}]
			if c != nil {
				conf++
				if c.ByPrec {
					o.count("conflict_cells_by_precedence", 1)
					switch {
					case rg.RulePrec[c.Reduces[0]] != rg.TokPrec[s]:
						o.count("  by_level", 1)
					case rg.TokAssoc[s] == ref.AssocLeft:
						o.count("  by_left", 1)
					case rg.TokAssoc[s] == ref.AssocRight:
						o.count("  by_right", 1)
					default:
						o.count("  by_nonassoc", 1)
					}
				} else if c.Shift >= 0 {
					o.count("conflict_cells_default_shift", 1)
				} else {
					o.count("conflict_cells_default_first_rule", 1)
				}
			}
			o.count("cells_compared", 1)
			if kind != wk || arg != wa {
				what := "cell"
				if c != nil {
					what = fmt.Sprintf("conflict cell (shift %d, reduces %v, rule prec %v, token prec %d assoc %d)", c.Shift, c.Reduces, precsOf(rg, c.Reduces), rg.TokPrec[s], rg.TokAssoc[s])
				}
				o.Status = "violated"
				o.Detail = fmt.Sprintf("%s in state %v on %s: yaccgo has %s, reference has %s\ngrammar:\n%s", what, describeItems(rg, lr0.States[rs].Items), rg.Names[s],
					actStr(rg, kind, arg), actStr(rg, wk, wa), text)
				return o
			}
		}
	}
	o.Nontrivial = conf > 0
	o.Hash = hashOf(text)
	o.count("grammars_built", 1)
	if conf > 0 && (idx%50 == 14) {
		o.Sample = map[string]interface{}{"grammar": trunc(text, 600), "conflict_cells": conf}
	}
	return o
}

func precsOf(g *ref.Grammar, rules []int) []int {
	res := []int{}
	for _, r := range rules {
		res = append(res, g.RulePrec[r])
	}
	return res
}

func actStr(g *ref.Grammar, kind, arg int) string {
	switch kind {
	case ref.ActErr:
		return "error"
	case ref.ActAccept:
		return "accept"
	case ref.ActShift:
		return fmt.Sprintf("shift/goto (reference state %d)", arg)
	}
	return "reduce " + g.RuleString(arg)
}

func init()              { register(c04in{}) }
func (c04in) ID() string { return "C04" }
func (c04in) Rule() string {
	return "table leg: case = one grammar (operator tables with 1-6 levels, random associativity, prefix operators via %prec; random grammars with precedence lines; curated families) built in-process; yaccgo's precedence assignment (level order, associativity, rule precedence symbol) is compared with the specification, and every cell of the dense table except don't-care cells is compared with the reference table (yacc resolution over the by-definition LALR(1) automaton, states matched by item set); behaviour leg (pipeline, counters gen:*): generated parsers of operator grammars must perform exactly the reductions of the reference LR simulation and group every expression like an independent precedence-climbing evaluator; non-trivial = grammar with at least one conflict cell; distinct by grammar text"
}
func (c04in) Assumptions() []string {
	return []string{"rule precedence = %prec symbol else last terminal; grammars where that differs from yaccgo's documented 'last rhs symbol with precedence' are not generated", "cells with >= 3 candidates and r/r cells with two precedences are not judged"}
}
func (c04in) DiedIsViolation() bool      { return false }
func (c04in) MinNontrivial(t string) int { return 300 }

func tokenUsed(g *spec.Grammar, ti int) bool {
	for _, ru := range g.Rules {
		for _, s := range ru.Rhs {
			if s.T && s.I == ti {
				return true
			}
		}
	}
	return false
}
