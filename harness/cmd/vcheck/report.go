package main

import (
	"encoding/json"
	"fmt"
	"os"
	"os/exec"
	"path/filepath"
	"sort"
	"strings"
	"time"
)

var verifRoot = func() string {
	if v := os.Getenv("VERIF_ROOT"); v != "" {
		return v
	}
	return "/verif"
}()

var verifOut = func() string {
	if v := os.Getenv("VERIF_OUT"); v != "" {
		return v
	}
	return verifRoot
}()

// Report gathers the outcomes of one check run and turns them into evidence,
// replay bundles, output lines and an exit status.
type Report struct {
	Prop            string
	Tier            string
	Seed            int64
	Outcomes        []Outcome
	Rule            string
	Assumptions     []string
	Extra           map[string]interface{}
	MinNontrivial   int
	DiedIsViolation bool
	Classify        func(o *Outcome)
	Start           time.Time
	Exhaustive      bool
	Notes           []string
}

type knownEntry struct {
	prop, key, text string
}

func loadKnown() []knownEntry {
	b, err := os.ReadFile(filepath.Join(verifRoot, "KNOWN_FINDINGS.txt"))
	if err != nil {
		return nil
	}
	var res []knownEntry
	for _, l := range strings.Split(string(b), "\n") {
		l = strings.TrimSpace(l)
		if !strings.HasPrefix(l, "known:") {
			continue
		}
		f := strings.Fields(strings.TrimPrefix(l, "known:"))
		e := knownEntry{}
		rest := []string{}
		for _, w := range f {
			switch {
			case strings.HasPrefix(w, "property="):
				e.prop = strings.TrimPrefix(w, "property=")
			case strings.HasPrefix(w, "case="):
				e.key = strings.TrimPrefix(w, "case=")
			default:
				rest = append(rest, w)
			}
		}
		e.text = strings.Join(rest, " ")
		res = append(res, e)
	}
	return res
}

func (r *Report) Finish() int {
	known := loadKnown()
	replayDir := filepath.Join(verifOut, "replays", r.Prop)
	os.RemoveAll(replayDir)
	counters := map[string]int{}
	status := map[string]int{}
	distinct := map[string]bool{}
	distinctN := 0
	var samples []interface{}
	var viol []Outcome
	knownPrinted := map[string]bool{}
	nKnown := 0
	for i := range r.Outcomes {
		o := &r.Outcomes[i]
		if r.Classify != nil && (o.Status == "died" || o.Status == "budget" || o.Status == "blocked") {
			r.Classify(o)
		}
		if o.Status == "budget" && r.Prop != "C13" {
			// outside C13 the CPU budget is only a safety net: a very slow case is not a verdict
			o.Detail = "(case exceeded the safety budget of CPU time) " + o.Detail
			o.Status = "inconclusive"
		}
		if o.Status == "blocked" {
			o.Detail = "(blocked) " + o.Detail
			o.Status = "inconclusive"
		}
		if (o.Status == "died" || o.Status == "budget") && !r.DiedIsViolation {
			o.Detail = "(" + o.Status + ") " + o.Detail
			o.Status = "inconclusive"
		}
		if o.Status == "died" || o.Status == "budget" {
			o.Detail = "(" + o.Status + ") " + o.Detail
			o.Status = "violated"
		}
		if o.Status == "violated" && o.Known != "" {
			matched := false
			for _, k := range known {
				if k.prop == r.Prop && k.key == o.Known {
					matched = true
					if !knownPrinted[k.key] {
						knownPrinted[k.key] = true
						fmt.Printf("KNOWN-FINDING: property=%s case=%s %s\n", r.Prop, k.key, k.text)
					}
				}
			}
			if matched {
				o.Status = "known"
				nKnown++
			}
		}
		status[o.Status]++
		for k, v := range o.Counters {
			counters[k] += v
		}
		if o.Nontrivial && o.Hash != "" && (o.Status == "held" || o.Status == "known") && !distinct[o.Hash] {
			distinct[o.Hash] = true
			if o.Sub > 1 {
				distinctN += o.Sub
			} else {
				distinctN++
			}
		}
		if o.Sample != nil && len(samples) < 4 && o.Status == "held" {
			samples = append(samples, o.Sample)
		}
		if o.Status == "violated" {
			viol = append(viol, *o)
		}
	}
	evaluations := len(r.Outcomes) - status["skipped"]
	for k, v := range counters {
		if strings.HasPrefix(k, "eval:") {
			evaluations += v
		}
	}
	// replay bundles + output lines
	for i, v := range viol {
		dir := filepath.Join(replayDir, fmt.Sprintf("%s-seed%d-case%d", r.Tier, r.Seed, v.Idx))
		os.MkdirAll(dir, 0755)
		b, _ := json.MarshalIndent(map[string]interface{}{
			"property": r.Prop, "tier": r.Tier, "seed": r.Seed, "idx": v.Idx,
			"detail": v.Detail, "replay": v.Replay,
		}, "", " ")
		os.WriteFile(filepath.Join(dir, "case.json"), b, 0644)
		if i < 5 {
			fmt.Printf("VIOLATION property=%s replay=%s\n", r.Prop, dir)
			d := v.Detail
			if len(d) > 1500 {
				d = d[:1500] + "..."
			}
			fmt.Printf("  case %d: %s\n", v.Idx, strings.ReplaceAll(d, "\n", "\n    "))
		}
	}
	if len(viol) > 5 {
		fmt.Printf("  (%d more violations written under %s)\n", len(viol)-5, replayDir)
	}
	if len(samples) == 0 {
		for _, o := range r.Outcomes {
			if o.Sample != nil {
				samples = append(samples, o.Sample)
				break
			}
		}
	}
	if len(samples) == 0 {
		samples = append(samples, "no sample recorded")
	}
	cov := map[string]interface{}{
		"evaluations":         evaluations,
		"distinct_nontrivial": distinctN,
		"rule":                r.Rule,
		"samples":             samples,
		"status_counts":       status,
		"counters":            sortedCounters(counters),
	}
	if r.Exhaustive {
		cov["exhaustive"] = true
	}
	for k, v := range r.Extra {
		cov[k] = v
	}
	if cv := coverageOfAnchors(r.Prop); cv != nil {
		cov["anchored_function_coverage_percent"] = cv
	}
	if len(r.Notes) > 0 {
		cov["notes"] = r.Notes
	}
	ev := map[string]interface{}{
		"property_id": r.Prop,
		"tier":        r.Tier,
		"seed":        r.Seed,
		"level":       "exploration",
		"coverage":    cov,
		"assumptions": r.Assumptions,
		"wall_s":      time.Since(r.Start).Seconds(),
		"violations":  len(viol),
	}
	b, _ := json.MarshalIndent(ev, "", " ")
	os.MkdirAll(filepath.Join(verifOut, "evidence"), 0755)
	os.WriteFile(filepath.Join(verifOut, "evidence", r.Prop+".json"), append(b, '\n'), 0644)

	inc := status["inconclusive"]
	fmt.Printf("%s %s seed=%d: %d evaluations, %d distinct non-trivial, status %v, %.1fs\n",
		r.Prop, r.Tier, r.Seed, evaluations, distinctN, status, time.Since(r.Start).Seconds())
	keys := make([]string, 0, len(counters))
	for k := range counters {
		keys = append(keys, k)
	}
	sort.Strings(keys)
	for _, k := range keys {
		fmt.Printf("  observed %-40s %d\n", k, counters[k])
	}
	if len(viol) > 0 {
		return 1
	}
	if inc > 0 && inc*50 <= len(r.Outcomes) {
		// tolerated (at most 2% of the cases), but never silent
		n := 0
		for _, o := range r.Outcomes {
			if o.Status == "inconclusive" && n < 3 {
				fmt.Printf("  note: case %d inconclusive: %.400s\n", o.Idx, o.Detail)
				n++
			}
		}
	}
	if len(r.Outcomes) == 0 || inc*50 > len(r.Outcomes) {
		fmt.Printf("INCONCLUSIVE property=%s: %d of %d cases inconclusive\n", r.Prop, inc, len(r.Outcomes))
		for _, o := range r.Outcomes {
			if o.Status == "inconclusive" {
				fmt.Printf("  e.g. case %d: %.600s\n", o.Idx, o.Detail)
				break
			}
		}
		return 2
	}
	if distinctN < r.MinNontrivial {
		fmt.Printf("INCONCLUSIVE property=%s: only %d distinct non-trivial cases observed (need %d): the monitor saw too little\n", r.Prop, distinctN, r.MinNontrivial)
		return 2
	}
	return 0
}

func sortedCounters(m map[string]int) map[string]int { return m }

// coverageOfAnchors reports, for the functions in the property's anchored
// files, the statement coverage reached by this run (thorough tier only;
// evidence of reach, never a verdict).
func coverageOfAnchors(prop string) map[string]float64 {
	dir := os.Getenv("VERIF_COVDIR")
	if dir == "" {
		return nil
	}
	if ents, err := os.ReadDir(dir); err != nil || len(ents) == 0 {
		return nil
	}
	pb, err := os.ReadFile(filepath.Join(verifRoot, "properties.jsonl"))
	if err != nil {
		return nil
	}
	var files []string
	for _, l := range strings.Split(string(pb), "\n") {
		var p struct {
			ID      string `json:"id"`
			Anchors struct {
				Files []string `json:"files"`
			} `json:"anchors"`
		}
		if json.Unmarshal([]byte(l), &p) == nil && p.ID == prop {
			files = p.Anchors.Files
		}
	}
	cmd := exec.Command("go", "tool", "covdata", "func", "-i="+dir)
	out, err := cmd.Output()
	if err != nil {
		return nil
	}
	res := map[string]float64{}
	for _, l := range strings.Split(string(out), "\n") {
		f := strings.Fields(l)
		if len(f) != 3 || !strings.HasSuffix(f[2], "%") {
			continue
		}
		for _, af := range files {
			if strings.Contains(f[0], "/"+af+":") {
				var pct float64
				fmt.Sscanf(strings.TrimSuffix(f[2], "%"), "%f", &pct)
				res[af+":"+f[1]] = pct
			}
		}
	}
	if len(res) == 0 {
		return nil
	}
	return res
}
