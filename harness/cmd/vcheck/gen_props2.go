package main

import (
	"fmt"
	"math/rand"
	"regexp"
	"strings"
	"time"

	"verif/harness/gen"
	"verif/harness/pipe"
	"verif/harness/ref"
	"verif/harness/spec"
)

func goVariants(i int) []pipe.Variant { return pipe.GoVariants }

const pipeIdxBase = 1000000

// pipelineLegs are the generated-code legs of properties that also have an in-process leg.
var pipelineLegs = map[string]func(tier string, seed int64, only int) []Outcome{}

// ---------------------------------------------------------------- C05 (generated code leg)

func init() {
	pipelineLegs["C05"] = func(tier string, seed int64, only int) []Outcome {
		cp := &campaign{Prop: "C05", Tier: tier, Seed: seed, Only: only, N: tierN(tier, 80, 1200), Make: mixedGrammar, Variants: goVariants,
			MaxStr: tierN(tier, 1000, 4000), NLong: 100, Probe: true}
		cp.Judge = func(c *gcase, o *Outcome) {
			pairs := [][2]pipe.Variant{{pipe.VGo, pipe.VGoU}, {pipe.VGoO, pipe.VGoOU}}
			sub := 0
			for _, pr := range pairs {
				pa, un := c.Outs[pr[0]], c.Outs[pr[1]]
				if pa == nil || un == nil || pa.Resp == nil || un.Resp == nil {
					continue
				}
				if !strings.Contains(pa.Source, "StatePackAction") {
					o.count("gen:grammars_not_worth_packing", 1)
				}
				for k := range c.Inputs {
					a, b := c.result(pr[0], k), c.result(pr[1], k)
					o.count("eval:gen:input_pairs_compared", 1)
					if a.Verdict != b.Verdict || fmt.Sprint(a.Log) != fmt.Sprint(b.Log) || a.Value != b.Value || a.Fetched != b.Fetched {
						o.Status = "violated"
						o.Detail = fmt.Sprintf("packed and unpacked parser disagree\n--- %s\n--- %s", describeCase(c, pr[0], k), describeCase(c, pr[1], k))
						return
					}
					if len(a.Log) > 0 {
						sub++
					}
				}
				ta, tb := pa.Resp.Table, un.Resp.Table
				if ta == nil || tb == nil {
					continue
				}
				if ta.Err != "" || tb.Err != "" {
					o.Status = "violated"
					o.Detail = fmt.Sprintf("table lookup panics (%s: %q, %s: %q)\ngrammar:\n%s", pr[0], ta.Err, pr[1], tb.Err, c.Job.Text[pr[0]])
					return
				}
				if msg := diffTables(ta, tb); msg != "" {
					o.Status = "violated"
					o.Detail = fmt.Sprintf("lookup through the packed arrays (%s) differs from the plain table (%s): %s\ngrammar:\n%s", pr[0], pr[1], msg, c.Job.Text[pr[0]])
					return
				}
				o.count("gen:effective_table_cells_compared", ta.NStates*len(ta.Names))
			}
			o.Nontrivial = sub > 0
			o.Sub = sub
			o.Hash = hashOf("gen", specJSON(c.G))
			if c.Idx == 7 {
				o.Sample = sampleOf(c)
			}
		}
		return cp.run()
	}
}

// ---------------------------------------------------------------- C11 (generated code leg)

func init() {
	pipelineLegs["C11"] = func(tier string, seed int64, only int) []Outcome {
		cp := &campaign{Prop: "C11", Tier: tier, Seed: seed, Only: only, N: tierN(tier, 60, 600), Variants: allVariants,
			MaxStr: 200, NLong: 30, Probe: true}
		cp.Make = func(r *rand.Rand, i int) *spec.Grammar {
			return gen.Rich(r, gen.RichCfg{Names: i%2 == 0, IntTags: true, EOFAlias: true})
		}
		cp.Judge = func(c *gcase, o *Outcome) {
			var goT *pipe.Table
			for _, v := range c.live() {
				t := c.Outs[v].Resp.Table
				if t == nil {
					continue
				}
				if t.Err != "" {
					o.Status = "violated"
					o.Detail = fmt.Sprintf("table/translate dump of %s panics: %s", v, t.Err)
					return
				}
				if !v.IsTS() {
					if goT == nil {
						goT = t
					}
					// names: every token code maps to the symbol that carries the token's name
					codes := map[int]bool{-1: true}
					for _, tk := range c.G.Tokens {
						code := tk.Lit
						if tk.Name != "" {
							// the code is whatever the generated constant says: take it from the source text
							m := regexp.MustCompile(`(?m)^const ` + regexp.QuoteMeta(tk.Name) + ` = (-?\d+)\s*$`).FindStringSubmatch(c.Outs[v].Source)
							if m == nil {
								o.Status = "violated"
								o.Detail = fmt.Sprintf("%s: no constant for token %s", v, tk.Name)
								return
							}
							fmt.Sscan(m[1], &code)
						}
						codes[code] = true
						id, ok := t.Translate[fmt.Sprint(code)]
						if !ok {
							// not among the probed codes: skip (probe covers -3..299, explicit numbers and 700 random)
							o.count("gen:token_codes_not_probed", 1)
							continue
						}
						if tk.IsEOFAlias() {
							if code != -1 || id != 1 {
								o.Status = "violated"
								o.Detail = fmt.Sprintf("%s: end-marker alias %s has constant %d and translates to symbol %d (expected -1 and the end marker)", v, tk.Name, code, id)
								return
							}
							continue
						}
						want := strings.TrimSpace(tk.TraceName())
						if id <= 1 || id >= len(t.Names) || strings.TrimSpace(t.Names[id]) != want {
							o.Status = "violated"
							o.Detail = fmt.Sprintf("%s: translate(%d) = %d, which is not the symbol of token %s\ngrammar:\n%s", v, code, id, tk.Src(), c.Job.Text[v])
							return
						}
						o.count("gen:translate_token_codes_checked", 1)
					}
					if t.Translate["-1"] != 1 || t.Names[1] != "$" {
						o.Status = "violated"
						o.Detail = fmt.Sprintf("%s: translate(-1) = %d, not the end marker", v, t.Translate["-1"])
						return
					}
					for k, id := range t.Translate {
						var code int
						fmt.Sscan(k, &code)
						if codes[code] {
							continue
						}
						o.count("gen:translate_other_integers_checked", 1)
						if id != 0 {
							o.Status = "violated"
							o.Detail = fmt.Sprintf("%s: translate(%d) = %d although %d is no token code (must map to the error symbol 0)", v, code, id, code)
							return
						}
					}
					for s := range t.Rows {
						if t.Rows[s][0] != t.ErrorCode {
							o.Status = "violated"
							o.Detail = fmt.Sprintf("%s: state %d does not treat the error symbol as an error (cell = %d)", v, s, t.Rows[s][0])
							return
						}
					}
				} else if goT != nil {
					for k, id := range goT.Translate {
						if t.Translate[k] != id {
							o.Status = "violated"
							o.Detail = fmt.Sprintf("typescript translate(%s) = %d, go translate gives %d", k, t.Translate[k], id)
							return
						}
					}
					o.count("gen:ts_translate_compared", len(goT.Translate))
				}
			}
			// the lexer returns codes through the generated constants: single-token sentences must parse alike in all variants
			vs := c.live()
			for k := range c.Inputs {
				for _, v := range vs[1:] {
					a, b := c.result(vs[0], k), c.result(v, k)
					o.count("eval:gen:parses_compared", 1)
					if a.Verdict != b.Verdict || fmt.Sprint(a.Log) != fmt.Sprint(b.Log) {
						o.Status = "violated"
						o.Detail = fmt.Sprintf("variants disagree\n--- %s\n--- %s", describeCase(c, vs[0], k), describeCase(c, v, k))
						return
					}
				}
				if c.Member[k] && c.LALR1 && c.result(vs[0], k).Verdict != "accept" {
					o.Status = "violated"
					o.Detail = "sentence rejected (token codes delivered through the generated constants)\n" + describeCase(c, vs[0], k)
					return
				}
			}
			o.Nontrivial = true
			o.Hash = hashOf("gen", specJSON(c.G))
			if c.Idx == 3 {
				o.Sample = map[string]interface{}{"grammar": trunc(c.Job.Text[vs[0]], 500), "translate_probes": len(goT.Translate)}
			}
		}
		return cp.run()
	}
}

// ---------------------------------------------------------------- C04 (behaviour leg)

func init() {
	pipelineLegs["C04"] = func(tier string, seed int64, only int) []Outcome {
		cp := &campaign{Prop: "C04", Tier: tier, Seed: seed, Only: only, N: tierN(tier, 40, 500),
			MaxStr: tierN(tier, 1500, 4000), NLong: tierN(tier, 300, 600)}
		cp.Variants = func(i int) []pipe.Variant {
			if tier == "thorough" {
				return pipe.AllVariants
			}
			return []pipe.Variant{pipe.VGoU, pipe.VGo, pipe.VTS}
		}
		cp.Make = func(r *rand.Rand, i int) *spec.Grammar {
			for {
				g := gen.OpTable(r)
				c := &gcase{G: g}
				c.prepare()
				if c.Tab != nil && c.Clean && !g.PrecAmbiguous() {
					return g
				}
			}
		}
		cp.Judge = func(c *gcase, o *Outcome) {
			sub := 0
			pr := newPratt(c.G)
			for _, v := range c.live() {
				for k := range c.Inputs {
					r := c.result(v, k)
					sim := c.Sims[k]
					o.count("eval:gen:expressions_parsed", 1)
					if sim.StepLimit {
						continue
					}
					wantV := "error"
					if sim.Accept {
						wantV = "accept"
					}
					// second, independent reference: precedence climbing
					if pr != nil && v == c.live()[0] {
						pv, ptree := pr.parse(c.Inputs[k])
						if pv != sim.Accept {
							o.Status = "inconclusive"
							o.Detail = fmt.Sprintf("oracle disagreement: precedence climbing says accept=%v, LR reference says %v on [%s]\ngrammar:\n%s", pv, sim.Accept, inputStr(c.G, c.Inputs[k]), c.Job.Text[v])
							return
						}
						if pv {
							tree, err := c.RG.Replay(c.refTokens(c.Inputs[k]), sim.Reds)
							if err != nil {
								o.Status = "inconclusive"
								o.Detail = "oracle: reference simulation does not replay: " + err.Error()
								return
							}
							if got := c.G.EvalTree(tree).S; got != ptree {
								o.Status = "inconclusive"
								o.Detail = fmt.Sprintf("oracle disagreement on grouping of [%s]: LR reference %s, precedence climbing %s\ngrammar:\n%s", inputStr(c.G, c.Inputs[k]), got, ptree, c.Job.Text[v])
								return
							}
							o.count("gen:groupings_confirmed_by_precedence_climbing", 1)
						}
					}
					if r.Verdict != wantV {
						o.Status = "violated"
						o.Detail = fmt.Sprintf("expression should be %s under the declared precedence/associativity\n%s", wantV, describeCase(c, v, k))
						return
					}
					if fmt.Sprint(refReds(r.Log)) != fmt.Sprint(sim.Reds) && !(len(r.Log) == 0 && len(sim.Reds) == 0) {
						o.Status = "violated"
						o.Detail = fmt.Sprintf("expression grouped differently from the declarations: reference reductions %v\n%s", sim.Reds, describeCase(c, v, k))
						return
					}
					if !sim.Accept && r.Fetched != sim.Fetched {
						o.Status = "violated"
						o.Detail = fmt.Sprintf("syntax error (e.g. non-associative chain) detected at token %d, reference says %d\n%s", r.Fetched-1, sim.Fetched-1, describeCase(c, v, k))
						return
					}
					if v == c.live()[0] && sim.Accept && len(sim.Reds) >= 3 {
						sub++
					}
				}
			}
			o.Nontrivial = sub > 0
			o.Sub = sub
			o.Hash = hashOf("gen", specJSON(c.G))
			o.count("gen:operator_tables", 1)
			if c.Idx == 3 {
				o.Sample = sampleOf(c)
			}
		}
		return cp.run()
	}
}

// pratt is an independent precedence-climbing evaluator for operator grammars
// of the shape produced by gen.OpTable. It returns nil when the grammar has a
// shape it does not model.
type pratt struct {
	g        *spec.Grammar
	lv, as   []int
	binRule  map[int]int // token -> rule
	preRule  map[int]int // token -> rule
	preLevel map[int]int
	preAssoc map[int]int
	num      int
	numRule  int
	lp, rp   int
	parRule  int
}

func newPratt(g *spec.Grammar) *pratt {
	p := &pratt{g: g, binRule: map[int]int{}, preRule: map[int]int{}, preLevel: map[int]int{}, preAssoc: map[int]int{}, num: -1, lp: -1, rp: -1}
	p.lv, p.as = g.TokPrec()
	if len(g.NTs) != 1 {
		return nil
	}
	for k, ru := range g.Rules {
		switch {
		case len(ru.Rhs) == 3 && !ru.Rhs[0].T && ru.Rhs[1].T && !ru.Rhs[2].T && ru.Prec < 0:
			p.binRule[ru.Rhs[1].I] = k
		case len(ru.Rhs) == 2 && ru.Rhs[0].T && !ru.Rhs[1].T && ru.Prec >= 0:
			p.preRule[ru.Rhs[0].I] = k
			p.preLevel[ru.Rhs[0].I] = p.lv[ru.Prec]
			p.preAssoc[ru.Rhs[0].I] = p.as[ru.Prec]
		case len(ru.Rhs) == 3 && ru.Rhs[0].T && !ru.Rhs[1].T && ru.Rhs[2].T:
			p.lp, p.rp, p.parRule = ru.Rhs[0].I, ru.Rhs[2].I, k
		case len(ru.Rhs) == 1 && ru.Rhs[0].T:
			p.num, p.numRule = ru.Rhs[0].I, k
		default:
			return nil
		}
	}
	if p.num < 0 {
		return nil
	}
	return p
}

type prattState struct {
	p   *pratt
	in  []int
	pos int
	err bool
}

func (s *prattState) peek() int {
	if s.pos < len(s.in) {
		return s.in[s.pos]
	}
	return -2
}

func (p *pratt) tokVal(t, pos int) string { return p.g.TokenValue(t, pos).S }

func (p *pratt) node(rule int, kids ...string) string {
	// mirrors spec.EvalRule for string-valued symbols: "(k v1 v2 ...)" over the tagged rhs symbols
	r := p.g.Rules[rule]
	out := fmt.Sprintf("(%d", rule)
	ki := 0
	for i := range r.Rhs {
		tagged := p.g.SymTag(r.Rhs[i]) != ""
		referenced := false
		for _, ref := range r.Act.Refs {
			if ref == i+1 {
				referenced = true
			}
		}
		if tagged && referenced {
			out += " " + kids[ki]
		}
		ki++
	}
	return out + ")"
}

// parseExpr parses an expression whose binary operators must bind tighter
// than the context (ctxLevel, ctxAssoc): yacc's rule "reduce if rule level >
// token level, or equal and left; shift if lower, or equal and right; error if
// equal and nonassoc".
func (s *prattState) parseExpr(ctxLevel, ctxAssoc int) string {
	p := s.p
	var left string
	t := s.peek()
	switch {
	case t == p.num:
		left = p.node(p.numRule, p.tokVal(t, s.pos))
		s.pos++
	case t == p.lp && p.lp >= 0:
		lpv := p.tokVal(t, s.pos)
		s.pos++
		inner := s.parseExpr(0, 0)
		if s.err {
			return ""
		}
		if s.peek() != p.rp {
			s.err = true
			return ""
		}
		rpv := p.tokVal(p.rp, s.pos)
		s.pos++
		left = p.node(p.parRule, lpv, inner, rpv)
	default:
		if ru, ok := p.preRule[t]; ok {
			tv := p.tokVal(t, s.pos)
			s.pos++
			operand := s.parseExpr(p.preLevel[t], p.preAssoc[t])
			if s.err {
				return ""
			}
			left = p.node(ru, tv, operand)
		} else {
			s.err = true
			return ""
		}
	}
	for {
		t := s.peek()
		ru, ok := p.binRule[t]
		if !ok {
			return left
		}
		tl := p.lv[t]
		// context rule (level ctxLevel) vs token t
		if ctxLevel != 0 && tl != 0 {
			if ctxLevel > tl {
				return left
			}
			if ctxLevel == tl {
				switch ctxAssoc {
				case ref.AssocLeft:
					return left
				case ref.AssocNon:
					s.err = true
					return ""
				}
			}
		}
		tv := p.tokVal(t, s.pos)
		s.pos++
		right := s.parseExpr(tl, p.as[t])
		if s.err {
			return ""
		}
		left = p.node(ru, left, tv, right)
	}
}

func (p *pratt) parse(in []int) (bool, string) {
	for _, t := range in {
		if t < 0 {
			return false, ""
		}
	}
	s := &prattState{p: p, in: in}
	v := s.parseExpr(0, 0)
	if s.err || s.pos != len(in) {
		return false, ""
	}
	return true, v
}

var _ = time.Now
