package main

import (
	"fmt"
	"math/rand"
	"os"
	"path/filepath"
	"strings"
	"time"

	builder "github.com/acekingke/yaccgo/Builder"
	utils "github.com/acekingke/yaccgo/Utils"

	"verif/harness/gen"
	"verif/harness/ref"
	"verif/harness/render"
	"verif/harness/spec"
	"verif/harness/yx"
)

// C12: unusable grammars are rejected (with a diagnostic), usable ones are not.
type c12 struct{}

func init() { register(c12{}) }

func (c12) ID() string { return "C12" }
func (c12) regularCases(tier string) int {
	if tier == "thorough" {
		return len(families) + 200000
	}
	return len(families) + 5000
}
func (p c12) NumCases(tier string) int               { return p.regularCases(tier) + tinyCases(tier) }
func (c12) Extra(tier string) map[string]interface{} { return tinyExtra(tier) }
func (c12) Rule() string {
	return "case = one grammar: curated families, random grammars (not filtered), and injections (undefined identifier in a rhs; nonterminal without rules used in a rhs or as start symbol; unproductive nonterminal as start / deep in a chain / in a mutually recursive pair / unreachable; the same shapes repaired by one epsilon or terminal rule); reference = productive/defined fixpoints over the specification; yaccgo must build tables iff the reference says usable, and a refusal must be an error value or message panic, never a runtime error; non-trivial = injected case or random grammar that is unusable; distinct by grammar text"
}
func (c12) Assumptions() []string {
	return []string{"grammars with >= 2000 LR(0) states are skipped (documented limit)", "a %type'd nonterminal that is never defined nor used is not generated"}
}
func (c12) DiedIsViolation() bool      { return true }
func (c12) MinNontrivial(t string) int { return 300 }

// injectUnusable mutates g and returns a description; kind chosen by r.
// ghostName: the rule-less %type'd nonterminal sorts behind or in front of the other nonterminals
func ghostName(k int) string {
	if k%2 == 0 {
		return "AaGhost"
	}
	return "TypedGhost"
}

func injectC12(r *rand.Rand, g *spec.Grammar) string {
	addNT := func(name string) int {
		g.NTs = append(g.NTs, spec.NT{Name: name, Tag: "s"})
		return len(g.NTs) - 1
	}
	anyRule := func() *spec.Rule { return &g.Rules[r.Intn(len(g.Rules))] }
	insert := func(ru *spec.Rule, s spec.Sym) {
		p := r.Intn(len(ru.Rhs) + 1)
		ru.Rhs = append(ru.Rhs[:p], append([]spec.Sym{s}, ru.Rhs[p:]...)...)
	}
	kind := r.Intn(15)
	// every third time the unproductive nonterminal carries the name of yaccgo's augmented start symbol
	loopName := func() string {
		if r.Intn(3) != 0 {
			return "Loop"
		}
		for _, x := range g.NTs {
			if x.Name == "start" {
				return "Loop"
			}
		}
		return "start"
	}
	switch kind {
	case 0: // undefined identifier
		if len(g.Rules)%2 == 0 {
			// ... spelled like the character of a declared (and otherwise unused) literal token: 'q' is not q
			g.Tokens = append(g.Tokens, spec.Token{Lit: 'q', Decl: "token"}, spec.Token{Name: "q", Decl: "undeclared"})
			insert(anyRule(), spec.Sym{T: true, I: len(g.Tokens) - 1})
			return "undefined identifier in a rhs"
		}
		g.Tokens = append(g.Tokens, spec.Token{Name: "Uq", Decl: "undeclared"})
		insert(anyRule(), spec.Sym{T: true, I: len(g.Tokens) - 1})
		return "undefined identifier in a rhs"
	case 1: // nonterminal without rule used in a rhs
		n := addNT("Norule")
		g.NTs[n].Tag = ""
		insert(anyRule(), spec.Sym{I: n})
		return "nonterminal without rule in a rhs (plain identifier)"
	case 2: // unproductive self recursive, deep
		n := addNT(loopName())
		g.Rules = append(g.Rules, spec.Rule{Lhs: n, Rhs: []spec.Sym{{T: true, I: 0}, {I: n}}, Prec: -1})
		insert(anyRule(), spec.Sym{I: n})
		return "unproductive nonterminal used deep"
	case 3: // unproductive, unreachable
		n := addNT(loopName())
		g.Rules = append(g.Rules, spec.Rule{Lhs: n, Rhs: []spec.Sym{{I: n}, {T: true, I: 0}}, Prec: -1})
		return "unproductive nonterminal, unreachable"
	case 4: // mutually recursive pair
		a, b := addNT("Pa"), addNT("Pb")
		g.Rules = append(g.Rules, spec.Rule{Lhs: a, Rhs: []spec.Sym{{T: true, I: 0}, {I: b}}, Prec: -1},
			spec.Rule{Lhs: b, Rhs: []spec.Sym{{I: a}, {T: true, I: 0}}, Prec: -1})
		if r.Intn(2) == 0 {
			insert(anyRule(), spec.Sym{I: a})
		}
		return "mutually recursive unproductive pair"
	case 5: // unproductive start symbol (every second time under yaccgo's default name "start")
		name := "Top"
		if r.Intn(2) == 0 {
			name = "start"
			for _, x := range g.NTs {
				if x.Name == "start" {
					name = "Top"
				}
			}
		}
		n := addNT(name)
		g.Rules = append(g.Rules, spec.Rule{Lhs: n, Rhs: []spec.Sym{{I: n}, {I: g.Start}}, Prec: -1})
		g.Start = n
		return "unproductive start symbol"
	case 6: // chain into an unproductive one
		a, b, c := addNT("Ca"), addNT("Cb"), addNT("Cc")
		g.Rules = append(g.Rules, spec.Rule{Lhs: a, Rhs: []spec.Sym{{I: b}}, Prec: -1}, spec.Rule{Lhs: b, Rhs: []spec.Sym{{I: c}}, Prec: -1},
			spec.Rule{Lhs: c, Rhs: []spec.Sym{{I: c}}, Prec: -1})
		insert(anyRule(), spec.Sym{I: a})
		return "chain ending in a unit self loop"
	case 7: // repaired: self recursive + epsilon
		n := addNT("Loop")
		g.Rules = append(g.Rules, spec.Rule{Lhs: n, Rhs: []spec.Sym{{T: true, I: 0}, {I: n}}, Prec: -1}, spec.Rule{Lhs: n, Prec: -1})
		insert(anyRule(), spec.Sym{I: n})
		return "self recursive nonterminal repaired by an epsilon rule"
	case 8: // repaired pair
		a, b := addNT("Pa"), addNT("Pb")
		g.Rules = append(g.Rules, spec.Rule{Lhs: a, Rhs: []spec.Sym{{T: true, I: 0}, {I: b}}, Prec: -1},
			spec.Rule{Lhs: b, Rhs: []spec.Sym{{I: a}, {T: true, I: 0}}, Prec: -1}, spec.Rule{Lhs: b, Prec: -1})
		insert(anyRule(), spec.Sym{I: a})
		return "mutually recursive pair repaired by an epsilon rule"
	case 9: // repaired chain
		a, b, c := addNT("Ca"), addNT("Cb"), addNT("Cc")
		g.Rules = append(g.Rules, spec.Rule{Lhs: a, Rhs: []spec.Sym{{I: b}}, Prec: -1}, spec.Rule{Lhs: b, Rhs: []spec.Sym{{I: c}}, Prec: -1},
			spec.Rule{Lhs: c, Rhs: []spec.Sym{{I: c}}, Prec: -1}, spec.Rule{Lhs: c, Rhs: []spec.Sym{{T: true, I: 0}}, Prec: -1})
		insert(anyRule(), spec.Sym{I: a})
		return "chain with unit self loop repaired by a terminal rule"
	case 12: // %type'd nonterminal without rules, used somewhere (the rule keeps its other alternatives)
		n := addNT(ghostName(len(g.Rules)))
		ru := anyRule()
		g.Rules = append(g.Rules, spec.Rule{Lhs: ru.Lhs, Rhs: append(append([]spec.Sym{}, ru.Rhs...), spec.Sym{I: n}), Prec: -1})
		return "%type'd nonterminal without rule used in an extra alternative"
	case 13: // the same, but only in rules that are unreachable from the start symbol
		n := addNT(ghostName(len(g.Rules)))
		u := addNT("Unreach")
		g.Rules = append(g.Rules, spec.Rule{Lhs: u, Rhs: []spec.Sym{{T: true, I: 0}}, Prec: -1},
			spec.Rule{Lhs: u, Rhs: []spec.Sym{{I: u}, {I: n}}, Prec: -1})
		return "%type'd nonterminal without rule used only in unreachable rules"
	case 14: // %type'd nonterminal without rules, never used
		addNT(ghostName(len(g.Rules)))
		return "%type'd nonterminal without rule, never used"
	case 10: // start symbol without rules
		n := addNT("Nostart")
		g.NTs[n].Tag = ""
		g.Start = n
		return "start symbol without rules"
	default: // all-epsilon grammar tail: nullable-only nonterminal
		n := addNT("Eps")
		g.Rules = append(g.Rules, spec.Rule{Lhs: n, Prec: -1}, spec.Rule{Lhs: n, Rhs: []spec.Sym{{I: n}, {I: n}}, Prec: -1})
		insert(anyRule(), spec.Sym{I: n})
		return "nullable-only nonterminal (derives only the empty string)"
	}
}

// usableRef: every rhs symbol defined, every nonterminal has a rule and is productive.
func usableRef(g *spec.Grammar) (bool, string) {
	has := make([]bool, len(g.NTs))
	for _, ru := range g.Rules {
		has[ru.Lhs] = true
	}
	for _, ru := range g.Rules {
		for _, s := range ru.Rhs {
			if s.T && g.Tokens[s.I].Decl == "undeclared" {
				return false, "undefined symbol " + g.Tokens[s.I].Name
			}
			if !s.T && !has[s.I] {
				return false, "nonterminal without rule " + g.NTs[s.I].Name
			}
		}
	}
	if !has[g.Start] {
		return false, "start symbol without rule"
	}
	for i, h := range has {
		if !h {
			// declared through %type only
			return false, "nonterminal without rule " + g.NTs[i].Name
		}
	}
	rg := g.ToRef()
	p := rg.Productive()
	for i := range g.NTs {
		if !p[g.RefNT(i)] {
			return false, "unproductive nonterminal " + g.NTs[i].Name
		}
	}
	return true, ""
}

func (p c12) Run(seed int64, tier string, idx int) Outcome {
	if reg := p.regularCases(tier); idx >= reg {
		return tinyBatch("C12", idx-reg, false, func(g *spec.Grammar, i int) Outcome { return p.runOn(g, "tiny", false, i) })
	}
	r := caseRng(seed, "C12", idx)
	var g *spec.Grammar
	what := "random"
	injected := false
	switch {
	case idx < len(families):
		g = pickGrammar(r, idx, false, stdCfg)
		what = "family"
	case idx%10 == 7 || idx%25 == 6 || idx%50 == 19 || idx%397 == 57:
		// usable grammars of every family, including the size families (deep chains, hundreds of rules)
		g = pickGrammar(r, idx, true, stdCfg)
		what = "usable family member"
	case idx%2 == 0:
		g = gen.RandUsable(r, stdCfg)
		what = injectC12(r, g)
		injected = true
	default:
		g = gen.Rand(r, stdCfg)
	}
	if idx%3 == 0 {
		// names for the end marker (declared with -1): tokens that get no symbol of their own
		g.Tokens = append(g.Tokens, spec.Token{Name: "EndA", Num: -1, Decl: "token"})
		if idx%6 == 0 {
			g.Tokens = append(g.Tokens, spec.Token{Name: "EndB", Num: -1, Decl: "token"})
		}
	}
	return p.runOn(g, what, injected, idx)
}

func (c12) runOn(g *spec.Grammar, what string, injected bool, idx int) Outcome {
	g.NoAction = true
	// nonterminals that never appear on a lhs must not get a %type line (that is a different construct)
	has := make([]bool, len(g.NTs))
	for _, ru := range g.Rules {
		has[ru.Lhs] = true
	}
	for i := range g.NTs {
		if !has[i] && !strings.HasSuffix(g.NTs[i].Name, "Ghost") {
			g.NTs[i].Tag = ""
		}
	}
	// every second case is written with a random layout (optional ';', '|' vs repeated lhs, comments,
	// reordered declarations): whether a grammar is usable must not depend on how it is spelled
	var ro render.Options
	if idx >= 0 && idx%2 == 1 {
		ro.Rng = rand.New(rand.NewSource(int64(idx)*7919 + 13))
	}
	text := render.Render(g, plainParts, ro)
	o := Outcome{Status: "held", Replay: map[string]interface{}{"grammar": text, "what": what}}
	usable, why := usableRef(g)
	if usable {
		lr0 := ref.BuildLR0(g.ToRef(), 1990)
		if lr0 == nil {
			o.Status = "skipped"
			return o
		}
	}
	b := yx.Build(text, false)
	switch {
	case usable && !b.OK():
		o.Status = "violated"
		o.Detail = fmt.Sprintf("usable grammar (%s) refused: err=%v panic=%s\ngrammar:\n%s", what, b.Err, b.Panic, text)
	case !usable && b.OK():
		o.Status = "violated"
		o.Detail = fmt.Sprintf("unusable grammar accepted (%s: %s)\ngrammar:\n%s", what, why, text)
	case !usable && b.RuntimeErr:
		o.Status = "violated"
		o.Detail = fmt.Sprintf("unusable grammar (%s: %s) refused by a runtime error instead of a diagnostic: %s\n%s\ngrammar:\n%s", what, why, b.Panic, trunc(b.Stack, 1200), text)
	}
	// "processed" includes code generation: for a sample of usable grammars with real actions ($$, $n up to
	// $12, all four union fields) both generators must run to completion in-process
	if o.Status == "held" && usable && idx >= 0 && idx%10 == 3 {
		r2 := rand.New(rand.NewSource(int64(idx)*31 + 7))
		g2 := gen.Rich(r2, gen.RichCfg{IntTags: true, LongRhs: idx%20 == 3, Names: idx%3 == 0, EOFAlias: true})
		text2 := render.Render(g2, plainParts, render.Options{})
		for _, lang := range []string{"go", "ts"} {
			path := filepath.Join(scratch(), fmt.Sprintf("c12gen-%d-%d.%s", os.Getpid(), idx, lang))
			var gerr error
			var pan interface{}
			yx.CaptureStdout(func() {
				defer func() { pan = recover() }()
				utils.PackFlags, utils.ObjectMode = idx%4 != 3, idx%8 >= 4
				if lang == "go" {
					gerr = builder.TemplateGenFromString(text2, path)
				} else {
					gerr = builder.TsGenFromString(text2, path)
				}
			})
			utils.PackFlags, utils.ObjectMode = true, false
			os.Remove(path)
			o.count("eval:usable_grammars_generated_in_process", 1)
			if gerr != nil || pan != nil {
				o.Status = "violated"
				o.Detail = fmt.Sprintf("code generation (%s) fails on a usable grammar: err=%v panic=%v\ngrammar:\n%s", lang, gerr, pan, text2)
				o.Replay = map[string]interface{}{"grammar": text2}
				break
			}
		}
	}
	// CLI leg on a sample: the same verdict must come out of the real binary, as exit status + diagnostic
	// (residue 7: usable family members; 12: injected cases, mostly unusable; 33: random grammars)
	if o.Status == "held" && idx >= 0 && (idx%40 == 7 || idx%40 == 12 || idx%40 == 33) {
		dir := filepath.Join(scratch(), fmt.Sprintf("c12cli-%d-%d", os.Getpid(), idx))
		os.MkdirAll(dir, 0755)
		os.WriteFile(filepath.Join(dir, "g.y"), []byte(text), 0644)
		args := []string{"generate", "go", "g.y", "out.go"}
		if (idx/40)%2 == 0 {
			args = []string{"generate", "typescript", "g.y", "out.ts"}
		}
		// (the near-limit grammars of the size families take up to 100 CPU-seconds as typescript)
		res := runCLI(600, 30*time.Minute, dir, args...)
		_, statErr := os.Stat(filepath.Join(dir, args[len(args)-1]))
		os.RemoveAll(dir)
		o.count("eval:cli_runs", 1)
		failed := res.Exit != 0 || strings.Contains(res.Out, "panic:")
		switch {
		case res.TimedOut || res.Signal != "":
			// ended by the watchdog or the CPU limit: no answer of yaccgo (termination is C13's subject)
			o.Status = "inconclusive"
			o.Detail = fmt.Sprintf("CLI run ended by a resource limit (timed out %v, signal %q, %.1f CPU-s)", res.TimedOut, res.Signal, res.CPU)
		case usable && (failed || statErr != nil):
			o.Status = "violated"
			o.Detail = fmt.Sprintf("CLI refuses a usable grammar (%s): exit %d, %s\ngrammar:\n%s", what, res.Exit, trunc(res.Out, 300), text)
		case !usable && !failed:
			o.Status = "violated"
			o.Detail = fmt.Sprintf("CLI accepts an unusable grammar (%s: %s) with exit status 0\ngrammar:\n%s", what, why, text)
		case !usable && strings.Contains(res.Out, "runtime error"):
			o.Status = "violated"
			o.Detail = fmt.Sprintf("CLI refuses an unusable grammar (%s: %s) with a runtime error instead of a diagnostic: %s\ngrammar:\n%s", what, why, trunc(res.Out, 400), text)
		}
		if !usable {
			o.count("cli_refusals_with_diagnostic", 1)
		} else {
			o.count("cli_acceptances", 1)
		}
	}
	if usable {
		o.count("usable_accepted", 1)
	} else {
		o.count("unusable_refused", 1)
		o.count("refusal:"+trunc(diagClass(b), 40), 1)
	}
	if injected {
		o.count("injected:"+what, 1)
	}
	o.Nontrivial = injected || !usable
	o.Hash = hashOf(text)
	if idx == len(families) || idx == len(families)+1 {
		o.Sample = map[string]interface{}{"what": what, "usable": usable, "why": why, "diagnostic": trunc(b.Panic+fmt.Sprint(b.Err), 120), "grammar": trunc(text, 500)}
	}
	return o
}

func diagClass(b *yx.Built) string {
	if b.Err != nil {
		return "error value"
	}
	if b.Panic != "" {
		p := b.Panic
		for i, c := range p {
			if c >= '0' && c <= '9' || c == ':' {
				return p[:i]
			}
		}
		return p
	}
	return "none"
}
