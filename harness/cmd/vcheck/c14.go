package main

import (
	"crypto/sha1"
	"fmt"
	"os"
	"path/filepath"
	"time"

	builder "github.com/acekingke/yaccgo/Builder"
	utils "github.com/acekingke/yaccgo/Utils"

	"verif/harness/gen"
	"verif/harness/render"
	"verif/harness/spec"
	"verif/harness/yx"
)

// C14: generation is deterministic.
type c14 struct{}

func init() { register(c14{}) }

var c14Variants = [][]string{{"go"}, {"go", "-u"}, {"go", "-o"}, {"go", "-o", "-u"}, {"typescript"}, {"go", "-d"}}

func (c14) ID() string { return "C14" }
func (c14) grammars(tier string) int {
	if tier == "thorough" {
		return 150
	}
	return 16
}
func (p c14) NumCases(tier string) int { return p.grammars(tier) * len(c14Variants) }
func (c14) runs(tier string) (cli, inproc int) {
	if tier == "thorough" {
		return 30, 200
	}
	return 8, 60
}
func (c14) Rule() string {
	return "case = (grammar, option set) with option sets go, go -u, go -o, go -o -u, typescript, go -d (http debug code); the real CLI is run R times in separate processes (quick 8, thorough 30) and the generator is run N more times in-process (quick 60, thorough 200) on the same file; Go re-randomises map iteration on every range statement, which plays the role of the schedule; all output files are hashed and the number of distinct outputs must be 1; grammars have many symbols, tied row frequencies and states with several successors so that an order dependence shows up with high probability per run; non-trivial = case whose grammar has >= 6 symbols and >= 6 states; distinct by (grammar text, option set)"
}
func (c14) Assumptions() []string {
	return []string{"stdout of the generator (conflict warnings, debug listing) is not an output file and is not compared", "held on the runs observed: a dependence that flips with probability p per run is missed with probability (1-p)^(runs-1)"}
}
func (c14) DiedIsViolation() bool      { return false }
func (c14) MinNontrivial(t string) int { return 10 }

// tieSites counts rows of the action part and columns of the goto part in which two or more
// different values share the highest frequency (the places where "most frequent value" needs a
// tie-break), and how many of those ties are between two reductions.
func tieSites(text string) (ties, redTies int) {
	b := yx.Build(text, false)
	if !b.OK() {
		return 0, 0
	}
	gt := b.Root.GTable
	nt := len(b.Root.G.VtSet)
	count := func(vals []int) {
		freq := map[int]int{}
		for _, v := range vals {
			freq[v]++
		}
		best := 0
		for _, c := range freq {
			if c > best {
				best = c
			}
		}
		var top []int
		for v, c := range freq {
			if c == best {
				top = append(top, v)
			}
		}
		if len(top) >= 2 {
			ties++
			neg := 0
			for _, v := range top {
				if v < 0 {
					neg++
				}
			}
			if neg >= 2 {
				redTies++
			}
		}
	}
	for _, row := range gt {
		count(row[:nt+1])
	}
	for c := nt + 1; c < len(gt[0]); c++ {
		col := make([]int, len(gt))
		for s := range gt {
			col[s] = gt[s][c]
		}
		count(col)
	}
	return ties, redTies
}

func c14Grammar(seed int64, gi int) *spec.Grammar {
	r := caseRng(seed, "C14-grammar", gi)
	if gi%4 == 3 {
		return gen.OpTable(r)
	}
	if gi%4 == 2 {
		// grammars whose lookahead computation has strongly connected components with shared sets
		// (the D12 witness first), then the other curated families
		fam := []string{
			"A: ; L: A A | g | A L L f z d A A L e L d | q e z q g g d c c f f; A: L",
			"S: A x; A: B C; B: A D | b; C: | c; D: | d",
			"X: A B X | c; A: ; B: ",
			"S: o1 A c1 | o2 B c2 | o3 C c3 | o4 D c4; A: a B; B: b C; C: c D; D: d A | e",
		}
		k := gi / 4
		if k < len(fam) {
			return gen.Parse(fam[k])
		}
		return cloneGrammar(families[k%len(families)])
	}
	if gi%4 == 1 {
		// grammars with few terminals and several complete items per state: pick, among 40 candidates,
		// the one with most tie sites (reduce/reduce ties count double)
		var best *spec.Grammar
		bestScore := -1
		for k := 0; k < 40; k++ {
			var g *spec.Grammar
			if k%2 == 0 {
				g = gen.RandUsable(r, gen.RandCfg{MaxT: 4, MaxNT: 5, MaxAlt: 3, MaxRhs: 3})
			} else {
				g = gen.Contexts(r)
			}
			g.NoAction = true
			t, rt := tieSites(render.Render(g, plainParts, render.Options{}))
			if sc := t + 3*rt; sc > bestScore {
				best, bestScore = g, sc
			}
		}
		return best
	}
	for {
		g := gen.Rich(r, gen.RichCfg{IntTags: true, Names: gi%2 == 0, EOFAlias: true})
		if len(g.Tokens)+len(g.NTs) >= 8 {
			if gi%8 == 0 {
				// several names for the end marker (all declared with -1): identifiers that tie on their code
				g.Tokens = append(g.Tokens, spec.Token{Name: "EndA", Num: -1, Decl: "token"}, spec.Token{Name: "EndB", Num: -1, Decl: "token"})
			}
			return g
		}
	}
}

func (p c14) Run(seed int64, tier string, idx int) Outcome {
	gi, vi := idx/len(c14Variants), idx%len(c14Variants)
	g := c14Grammar(seed, gi)
	g.NoAction = true
	text := render.Render(g, plainParts, render.Options{})
	variant := c14Variants[vi]
	o := Outcome{Status: "held", Replay: map[string]interface{}{"grammar": text, "options": variant}}
	dir := filepath.Join(scratch(), fmt.Sprintf("c14-%d-%d", os.Getpid(), idx))
	os.MkdirAll(dir, 0755)
	defer os.RemoveAll(dir)
	in := filepath.Join(dir, "g.y")
	os.WriteFile(in, []byte(text), 0644)
	ncli, ninproc := p.runs(tier)
	hashes := map[string]int{}
	firstOut := map[string]string{}
	for k := 0; k < ncli; k++ {
		out := filepath.Join(dir, fmt.Sprintf("out%d", k))
		args := append([]string{"generate"}, variant...)
		args = append(args, in, out)
		res := runCLI(20, 2*time.Minute, dir, args...)
		ob, err := os.ReadFile(out)
		if err != nil || res.Exit != 0 {
			o.Status = "inconclusive"
			o.Detail = fmt.Sprintf("CLI run failed (exit %d, timedout %v): %s", res.Exit, res.TimedOut, trunc(res.Out, 400))
			return o
		}
		h := fmt.Sprintf("%x", sha1.Sum(ob))
		hashes[h]++
		if _, ok := firstOut[h]; !ok {
			firstOut[h] = string(ob)
		}
		os.Remove(out)
		o.count("eval:cli_runs", 1)
	}
	for k := 0; k < ninproc; k++ {
		out := filepath.Join(dir, "inproc")
		var err error
		var pan interface{}
		yx.CaptureStdout(func() {
			defer func() { pan = recover() }()
			utils.PackFlags, utils.ObjectMode = true, false
			for _, f := range variant[1:] {
				if f == "-u" {
					utils.PackFlags = false
				}
				if f == "-o" {
					utils.ObjectMode = true
				}
				if f == "-d" {
					utils.HttpDebug = true
				}
			}
			if variant[0] == "go" {
				err = builder.TemplateGenFromString(text, out)
			} else {
				err = builder.TsGenFromString(text, out)
			}
		})
		utils.PackFlags, utils.ObjectMode, utils.HttpDebug = true, false, false
		if err != nil || pan != nil {
			o.Status = "inconclusive"
			o.Detail = fmt.Sprintf("in-process generation failed: %v %v", err, pan)
			return o
		}
		ob, _ := os.ReadFile(out)
		h := fmt.Sprintf("%x", sha1.Sum(ob))
		hashes[h]++
		if _, ok := firstOut[h]; !ok {
			firstOut[h] = string(ob)
		}
		o.count("eval:inprocess_runs", 1)
	}
	o.count("distinct_outputs_seen", len(hashes))
	o.count("cases", 1)
	if len(hashes) != 1 {
		o.Status = "violated"
		var outs []string
		for _, v := range firstOut {
			outs = append(outs, v)
		}
		o.Detail = fmt.Sprintf("%d runs of 'generate %v' produced %d different output files %v; first difference:\n%s\ngrammar:\n%s",
			ncli+ninproc, variant, len(hashes), hashes, firstDiff(outs[0], outs[1]), text)
		return o
	}
	b := yx.Build(text, false)
	if b.OK() {
		o.Nontrivial = len(b.Root.G.Symbols) >= 6 && len(b.Root.GTable) >= 6
	}
	o.Hash = hashOf(text, fmt.Sprint(variant))
	if idx < 2 {
		o.Sample = map[string]interface{}{"options": variant, "runs": ncli + ninproc, "distinct_outputs": len(hashes), "grammar": trunc(text, 300)}
	}
	return o
}

func firstDiff(a, b string) string {
	i := 0
	for i < len(a) && i < len(b) && a[i] == b[i] {
		i++
	}
	s := i - 80
	if s < 0 {
		s = 0
	}
	return fmt.Sprintf("at byte %d:\n  A: %q\n  B: %q", i, trunc(a[s:], 200), trunc(b[s:], 200))
}
