package main

import (
	"fmt"
	"sort"
	"strings"
	"unicode"

	"verif/harness/gen"
	"verif/harness/render"
	"verif/harness/spec"
	"verif/harness/yx"
)

// C18: the debug listing and the DOT graph describe the automaton of the tables.
type c18 struct{}

func init() { register(c18{}) }

func (c18) ID() string { return "C18" }
func (c18) regularCases(tier string) int {
	if tier == "thorough" {
		return len(families) + 100000
	}
	return len(families) + 2000
}
func (p c18) NumCases(tier string) int { return p.regularCases(tier) + c18CLICases(tier) }
func (c18) Rule() string {
	return "case = one grammar built in-process with DebugFlags on and stdout captured; the 'Show State Closure' section is parsed (states, items with dot position, GOTO lines) and compared both with LR0Closure and with the shift/goto cells of GTable; the 'Show LookAhead SET' section is compared with the hook's (state, rule, lookahead) triples; DrawGrammar(GTable) is read through the gographviz API: node set, item labels per node, edge set vs shift/goto cells, reduce annotations vs negative cells, filled nodes vs accept cells, all by yaccgo's own numbering; a CLI leg compares 'yaccgo debug' and the DOT text printed by 'generate -g' with the dense table in the generated file; non-trivial = grammar with >= 4 states and at least one reduce annotation; distinct by grammar text"
}
func (c18) Assumptions() []string {
	return []string{"character literals that are DOT record metacharacters ({ } | \") are not generated", "listing sections DR/Reads/Follow are intermediate sets the property does not name; they are not judged"}
}
func (c18) DiedIsViolation() bool      { return false }
func (c18) MinNontrivial(t string) int { return 200 }

type listedState struct {
	items []string // "lhs|dot|sym sym sym"
	gotos map[string]int
}

// parseListing parses the "Show State Closure" and "Show LookAhead SET" sections.
func parseListing(out string) (states map[int]*listedState, order []int, las []string, err error) {
	states = map[int]*listedState{}
	lines := strings.Split(out, "\n")
	sec := ""
	var cur *listedState
	inGoto := false
	for _, ln := range lines {
		switch {
		case strings.HasPrefix(ln, "=========Show State Closure"):
			sec = "closure"
			continue
		case strings.HasPrefix(ln, "===========SHOW TRANS"):
			sec = "trans"
			continue
		case strings.HasPrefix(ln, "==========Show LookAhead SET"):
			sec = "la"
			continue
		case strings.HasPrefix(ln, "====="):
			sec = "other"
			continue
		}
		switch sec {
		case "closure":
			if strings.HasPrefix(ln, "--------state ") {
				var n int
				if _, e := fmt.Sscanf(ln, "--------state %d------------", &n); e != nil {
					return nil, nil, nil, fmt.Errorf("bad state header %q", ln)
				}
				if states[n] != nil {
					return nil, nil, nil, fmt.Errorf("state %d listed twice", n)
				}
				cur = &listedState{gotos: map[string]int{}}
				states[n] = cur
				order = append(order, n)
				inGoto = false
				continue
			}
			if cur == nil {
				if strings.TrimSpace(ln) == "" {
					continue
				}
				return nil, nil, nil, fmt.Errorf("line %q before any state", ln)
			}
			if ln == "GOTO:" {
				inGoto = true
				continue
			}
			if inGoto {
				f := strings.Fields(ln)
				if len(f) != 4 || f[0] != "at" || f[2] != "goto" {
					return nil, nil, nil, fmt.Errorf("bad GOTO line %q", ln)
				}
				var n int
				fmt.Sscanf(f[3], "%d", &n)
				if _, dup := cur.gotos[f[1]]; dup {
					return nil, nil, nil, fmt.Errorf("two GOTO lines on %s", f[1])
				}
				cur.gotos[f[1]] = n
				continue
			}
			i := strings.Index(ln, "-->")
			if i < 0 {
				return nil, nil, nil, fmt.Errorf("bad item line %q", ln)
			}
			f := strings.Fields(ln[i+3:])
			dot := -1
			syms := []string{}
			for _, w := range f {
				if w == "@" {
					if dot >= 0 {
						return nil, nil, nil, fmt.Errorf("two dots in %q", ln)
					}
					dot = len(syms)
					continue
				}
				syms = append(syms, w)
			}
			if dot < 0 {
				return nil, nil, nil, fmt.Errorf("no dot in %q", ln)
			}
			cur.items = append(cur.items, fmt.Sprintf("%s|%d|%s", ln[:i], dot, strings.Join(syms, " ")))
		case "la":
			// stop at the first line that is not of the form q:lhs--> ... : ...
			i := strings.Index(ln, ":")
			j := strings.Index(ln, "-->")
			k := strings.LastIndex(ln, " :")
			if i <= 0 || j < i || k < j {
				sec = "after"
				continue
			}
			q := ln[:i]
			ok := true
			for _, c := range q {
				if c < '0' || c > '9' {
					ok = false
				}
			}
			if !ok {
				sec = "after"
				continue
			}
			la := strings.Fields(ln[k+2:])
			sort.Strings(la)
			las = append(las, fmt.Sprintf("%s|%s|%s|%s", q, ln[i+1:j], strings.Join(strings.Fields(ln[j+3:k]), " "), strings.Join(la, " ")))
		}
	}
	return states, order, las, nil
}

// dotName is how a symbol must appear in the DOT text: literals as 'c' (the
// oracle does not call the repository's own naming helper).
func dotName(n string) string {
	const pre = "$operator"
	if strings.HasPrefix(n, pre) && len(n) > len(pre) {
		return "'" + n[len(pre):] + "'"
	}
	return n
}

// c18Printable replaces white-space and control-character literals by printable
// ones: the listing and the diagram are texts in which blanks and line breaks
// separate symbols, so such a literal cannot be told from the layout around it
// (a limit of this oracle, not a statement about yaccgo).
func c18Printable(g *spec.Grammar) {
	used := map[int]bool{}
	for _, t := range g.Tokens {
		if t.Name == "" {
			used[t.Lit] = true
		}
	}
	next := 0x2460
	for i := range g.Tokens {
		t := &g.Tokens[i]
		if t.Name == "" && (t.Lit <= 32 || unicode.IsSpace(rune(t.Lit)) || unicode.IsControl(rune(t.Lit))) {
			for used[next] {
				next++
			}
			t.Lit = next
			used[next] = true
		}
	}
}

func (p c18) Run(seed int64, tier string, idx int) (o Outcome) {
	if reg := p.regularCases(tier); idx >= reg {
		return c18CLIRun(seed, idx-reg)
	}
	r := caseRng(seed, "C18", idx)
	var g *spec.Grammar
	if idx >= len(families) && idx%3 == 0 && idx%9 != 6 {
		// (idx%9 == 6 is left to pickGrammar: those grammars call their start symbol "start")
		g = gen.OpTable(r)
	} else {
		g = pickGrammar(r, idx, true, stdCfg)
	}
	c18Printable(g)
	g.NoAction = true
	text := render.Render(g, plainParts, render.Options{})
	o = Outcome{Status: "held", Replay: map[string]interface{}{"grammar": text}}
	b := yx.Build(text, true)
	if !b.OK() {
		o.Status = "inconclusive"
		o.Detail = fmt.Sprintf("usable grammar not built: err=%v panic=%s", b.Err, b.Panic)
		return o
	}
	fail := func(f string, a ...interface{}) Outcome {
		o.Status = "violated"
		o.Detail = fmt.Sprintf(f, a...) + "\ngrammar:\n" + text
		return o
	}
	G := b.Root.G
	GT := b.Root.GTable
	n := len(GT)
	errc, accc := n+100, n+200
	states, _, las, err := parseListing(b.Stdout)
	if err != nil {
		return fail("debug listing does not parse: %v", err)
	}
	// ---- listing vs LR0Closure and vs GTable
	if len(states) != n {
		return fail("listing shows %d states, the table has %d", len(states), n)
	}
	for i, ic := range G.LR0.LR0Closure {
		ls := states[i]
		if ls == nil {
			return fail("state %d missing from the listing", i)
		}
		var want []string
		for _, it := range ic.Items {
			ru := G.ProductoinRules[it.RuleIndex]
			syms := []string{}
			for _, s := range ru.RighPart {
				syms = append(syms, s.Name)
			}
			want = append(want, fmt.Sprintf("%s|%d|%s", ru.LeftPart.Name, it.Dot, strings.Join(syms, " ")))
		}
		got := append([]string{}, ls.items...)
		sort.Strings(want)
		sort.Strings(got)
		if strings.Join(want, "\n") != strings.Join(got, "\n") {
			return fail("listing of state %d shows items %v, the state has %v", i, got, want)
		}
		o.count("listing_items_compared", len(want))
		// transitions vs table
		for a, v := range GT[i] {
			name := G.Symbols[a].Name
			isShift := v >= 0 && v != errc && v != accc
			lt, listed := ls.gotos[name]
			if isShift && (!listed || lt != v) {
				return fail("table has (state %d, %s) -> %d, listing shows %v (listed=%v)", i, name, v, lt, listed)
			}
			if !isShift && listed {
				// a transition that was resolved away (shift lost a conflict) is still a transition of the automaton: allowed only if LR0 has it
				found := false
				for _, gt := range ic.GoTo {
					if gt.Sym.Name == name && gt.ItemCl == lt {
						found = true
					}
				}
				if !found {
					return fail("listing shows a transition of state %d on %s to %d that the automaton does not have", i, name, lt)
				}
				o.count("listed_transitions_overridden_by_resolution", 1)
			}
		}
		for name := range ls.gotos {
			if G.SymbolsMap[name] == nil {
				return fail("listing names unknown symbol %q", name)
			}
		}
		o.count("listing_transitions_compared", len(ls.gotos))
	}
	// ---- lookahead listing vs hook
	var wantLA []string
	for _, e := range b.Root.VerifReduceLookaheads() {
		ru := G.ProductoinRules[e.Rule]
		syms := []string{}
		for _, s := range ru.RighPart {
			syms = append(syms, s.Name)
		}
		la := []string{}
		for _, s := range e.LA {
			la = append(la, G.Symbols[s].Name)
		}
		sort.Strings(la)
		wantLA = append(wantLA, fmt.Sprintf("%d|%s|%s|%s", e.State, ru.LeftPart.Name, strings.Join(syms, " "), strings.Join(la, " ")))
	}
	sort.Strings(wantLA)
	sort.Strings(las)
	if strings.Join(wantLA, "\n") != strings.Join(las, "\n") {
		return fail("lookahead listing differs from the lookahead sets used for the table:\nlisting: %v\nactual:  %v", las, wantLA)
	}
	o.count("listing_lookahead_lines_compared", len(las))
	// ---- DOT graph
	defer func() {
		if e := recover(); e != nil {
			o.Status = "violated"
			o.Detail = fmt.Sprintf("DrawGrammar panics: %v\ngrammar:\n%s", e, text)
		}
	}()
	var gr = b.Root.DrawGrammar(GT)
	if len(gr.Nodes.Nodes) != n {
		return fail("DOT graph has %d nodes, the table has %d states", len(gr.Nodes.Nodes), n)
	}
	reduceAnn := 0
	for i, ic := range G.LR0.LR0Closure {
		nd := gr.Nodes.Lookup[fmt.Sprintf("state_%d", i)]
		if nd == nil {
			return fail("DOT graph lacks node state_%d", i)
		}
		label := nd.Attrs["label"]
		label = strings.TrimSuffix(strings.TrimPrefix(label, "\""), "\"")
		if dotIndex(label, '"') >= 0 {
			return fail("node state_%d: the label contains an unescaped double quote (the DOT string ends there): %q", i, label)
		}
		head := fmt.Sprintf("<f0> state %d|{", i)
		if !strings.HasPrefix(label, head) {
			return fail("node state_%d has label %q", i, label)
		}
		rest := label[len(head):]
		end := dotIndex(rest, '}')
		if end < 0 {
			return fail("node state_%d: unbalanced label %q", i, label)
		}
		itemsPart, tail := rest[:end], rest[end+1:]
		var gotItems []string
		for _, s := range dotSplit(itemsPart, '|') {
			k := strings.Index(s, "-\\>")
			if k < 0 {
				return fail("node state_%d: item %q without arrow", i, s)
			}
			lhs := s[:k]
			body := s[k+3:]
			if body == "ε" {
				gotItems = append(gotItems, lhs+"|eps|")
				continue
			}
			body = strings.ReplaceAll(body, "•", " • ")
			body = dotUnescape(body)
			dot := -1
			syms := []string{}
			for _, w := range strings.Fields(body) {
				if w == "•" {
					if dot >= 0 {
						return fail("node state_%d: two dots in %q", i, s)
					}
					dot = len(syms)
					continue
				}
				syms = append(syms, w)
			}
			gotItems = append(gotItems, fmt.Sprintf("%s|%d|%s", lhs, dot, strings.Join(syms, " ")))
		}
		var wantItems []string
		for _, it := range ic.Items {
			ru := G.ProductoinRules[it.RuleIndex]
			if len(ru.RighPart) == 0 {
				wantItems = append(wantItems, ru.LeftPart.Name+"|eps|")
				continue
			}
			syms := []string{}
			for _, s := range ru.RighPart {
				syms = append(syms, dotName(s.Name))
			}
			wantItems = append(wantItems, fmt.Sprintf("%s|%d|%s", ru.LeftPart.Name, it.Dot, strings.Join(syms, " ")))
		}
		sort.Strings(gotItems)
		sort.Strings(wantItems)
		if strings.Join(gotItems, "\n") != strings.Join(wantItems, "\n") {
			return fail("DOT node state_%d shows items %v, the state has %v", i, gotItems, wantItems)
		}
		o.count("dot_items_compared", len(wantItems))
		// reduce annotations
		var wantRed []string
		hasAcc := false
		for a, v := range GT[i] {
			if v == accc {
				hasAcc = true
			}
			if v < 0 {
				wantRed = append(wantRed, fmt.Sprintf("%s: reduce rule at %d", dotName(G.Symbols[a].Name), -v))
			}
		}
		var gotRed []string
		if tail != "" {
			if !strings.HasPrefix(tail, "|{") || !strings.HasSuffix(tail, "}") {
				return fail("node state_%d: unexpected label tail %q", i, tail)
			}
			for _, s := range dotSplit(tail[2:len(tail)-1], '|') {
				s = dotUnescape(s)
				k := strings.LastIndex(s, ": reduce rule at ")
				if k < 0 {
					return fail("node state_%d: bad annotation %q", i, s)
				}
				gotRed = append(gotRed, strings.TrimSpace(s[:k])+s[k:])
			}
		}
		sort.Strings(wantRed)
		sort.Strings(gotRed)
		if strings.Join(gotRed, "\n") != strings.Join(wantRed, "\n") {
			return fail("DOT node state_%d annotates reductions %v, the table row has %v", i, gotRed, wantRed)
		}
		reduceAnn += len(wantRed)
		filled := nd.Attrs["style"] == "filled"
		if filled != hasAcc {
			return fail("DOT node state_%d filled=%v, table row holds the accept code: %v", i, filled, hasAcc)
		}
		if hasAcc {
			o.count("dot_accepting_nodes", 1)
		}
	}
	// edges
	wantEdges := map[string]int{}
	for i := range GT {
		for a, v := range GT[i] {
			if v >= 0 && v != errc && v != accc {
				wantEdges[fmt.Sprintf("state_%d->state_%d:%s", i, v, dotName(G.Symbols[a].Name))]++
			}
		}
	}
	gotEdges := map[string]int{}
	for _, e := range gr.Edges.Edges {
		l := e.Attrs["label"]
		l = strings.TrimSuffix(strings.TrimPrefix(l, "\""), "\"")
		l = strings.TrimSpace(dotUnescape(l))
		gotEdges[fmt.Sprintf("%s->%s:%s", e.Src, e.Dst, l)]++
	}
	for k, c := range wantEdges {
		if gotEdges[k] != c {
			return fail("DOT graph lacks (or duplicates) edge %s (%d times, expected %d)", k, gotEdges[k], c)
		}
	}
	for k, c := range gotEdges {
		if wantEdges[k] != c {
			return fail("DOT graph has edge %s that the table does not have", k)
		}
	}
	o.count("dot_edges_compared", len(wantEdges))
	o.count("dot_reduce_annotations_compared", reduceAnn)
	o.count("grammars_built", 1)
	o.Nontrivial = n >= 4 && reduceAnn > 0
	o.Hash = hashOf(text)
	if idx == 2 {
		o.Sample = map[string]interface{}{"grammar": trunc(text, 400), "states": n, "listing_head": trunc(b.Stdout, 500), "dot_edges": len(wantEdges)}
	}
	return o
}
