package main

import (
	"os"
	"testing"
)

func TestDebugPrescreen(t *testing.T) {
	if os.Getenv("VERIF_DEBUG_PRESCREEN") == "" {
		t.Skip()
	}
	mk := withPrescreen(25, mixedGrammar)
	for i := 0; i < 1000; i++ {
		r := caseRng(1, "C01-pipeline", i)
		g := mk(r, i)
		if len(getPrio(g)) > 0 {
			t.Logf("case %d prescreened", i)
		}
	}
}
