// Package spec defines the abstract grammar specification from which grammar
// files are rendered and against which yaccgo's behaviour is judged.
package spec

import (
	"fmt"
	"strconv"
	"strings"

	"verif/harness/ref"
)

// Token is a terminal of the specification.
type Token struct {
	Name string `json:"name,omitempty"` // identifier; empty for a character literal
	Lit  int    `json:"lit,omitempty"`  // character code of a literal
	Num  int    `json:"num,omitempty"`  // explicit token number (0 = automatic)
	Tag  string `json:"tag,omitempty"`
	// Decl: "token" (declared by %token), "prec" (only on a precedence line), "none" (literal used in rules only)
	Decl string `json:"decl"`
}

// NT is a nonterminal.
type NT struct {
	Name string `json:"name"`
	Tag  string `json:"tag,omitempty"`
}

// Sym references a token (T) or nonterminal by index.
type Sym struct {
	T bool `json:"t"`
	I int  `json:"i"`
}

// Act is the abstract semantic action of a rule: the value of the lhs is a
// function of the referenced rhs values (see Eval and render).
type Act struct {
	Refs []int  `json:"refs,omitempty"` // 1-based rhs positions used
	Coef []int  `json:"coef,omitempty"` // coefficients (int-valued lhs)
	C0   int    `json:"c0,omitempty"`
	Raw  string `json:"raw,omitempty"` // extra raw text inserted into the action (comments, braces); no $ inside
	// NoAssign: the action never assigns $$ (the lhs keeps the fresh, zero value the parser starts a reduction with)
	NoAssign bool `json:"noassign,omitempty"`
	// Accum: the action adds to $$ instead of overwriting it ("$$ = $$ + ..."): the same value as long as a
	// reduction starts with a fresh, zero $$ (Go variants only; an unassigned TypeScript field is undefined)
	Accum bool `json:"accum,omitempty"`
	// Pre: the action first assigns a constant to $$ and only then computes the value from $1..$n
	// ("$$ = 0; $$ = ..."): the same value unless $$ and some $n share storage
	Pre bool `json:"pre,omitempty"`
	// Plain: the action text depends only on the positions referenced and on whether a value is a
	// string or an int - not on the rule number and not on the tags; no reduction log is written.
	// Rules with the same shape then have byte-identical action text although their symbols use
	// different union fields (a generator must not key anything on the action text).
	Plain bool `json:"plain,omitempty"`
}

// Rule is one production.
type Rule struct {
	Lhs  int   `json:"lhs"`
	Rhs  []Sym `json:"rhs"`
	Prec int   `json:"prec"` // token index of %prec, -1 none
	Act  Act   `json:"act"`
}

// PrecLine is one %left/%right/%nonassoc line.
type PrecLine struct {
	Assoc string `json:"assoc"` // left right nonassoc
	Toks  []int  `json:"toks"`
}

// Grammar is the abstract specification.
type Grammar struct {
	Tokens   []Token    `json:"tokens"`
	NTs      []NT       `json:"nts"`
	Precs    []PrecLine `json:"precs,omitempty"`
	Start    int        `json:"start"`
	Rules    []Rule     `json:"rules"`
	NoAction bool       `json:"noaction,omitempty"` // render rules without actions
	Note     string     `json:"note,omitempty"`
}

// IsEOFAlias: a named token declared with the number -1 is an alias of the end
// marker (as `%token EOF -1` in the repository's examples): it gets a constant
// but is no grammar symbol of its own and never appears in a rule.
func (t Token) IsEOFAlias() bool { return t.Name != "" && t.Num == -1 }

// EOFAlias returns the index of the end-marker alias token, or -1.
func (g *Grammar) EOFAlias() int {
	for i, t := range g.Tokens {
		if t.IsEOFAlias() {
			return i
		}
	}
	return -1
}

// TokenExists tells whether token ti is a terminal of the grammar as yaccgo
// sees it: declared (by %token or on a precedence line) or used in a rule. A
// character literal of the specification that is neither declared nor used is
// not a token at all - its character code is just some integer a lexer might
// return, and may even coincide with an automatically assigned code.
func (g *Grammar) TokenExists(ti int) bool {
	t := g.Tokens[ti]
	if t.Decl == "token" || t.Decl == "prec" {
		return !t.IsEOFAlias()
	}
	if t.Decl == "undeclared" {
		return false
	}
	for _, ru := range g.Rules {
		for _, s := range ru.Rhs {
			if s.T && s.I == ti {
				return true
			}
		}
	}
	return false
}

// YName is the name yaccgo gives the token internally.
func (t Token) YName() string {
	if t.Name != "" {
		return t.Name
	}
	return "$operator" + string(rune(t.Lit))
}

// Src is how the token is written in a grammar file.
func (t Token) Src() string {
	if t.Name != "" {
		return t.Name
	}
	if t.Lit == '\'' {
		return `'\''`
	}
	return "'" + string(rune(t.Lit)) + "'"
}

// TraceName is how yaccgo prints the symbol in traces (RemoveTempName).
func (t Token) TraceName() string {
	if t.Name != "" {
		return t.Name
	}
	return "'" + string(rune(t.Lit)) + "' "
}

// SymName returns yaccgo's internal name of a symbol.
func (g *Grammar) SymName(s Sym) string {
	if s.T {
		return g.Tokens[s.I].YName()
	}
	return g.NTs[s.I].Name
}

func (g *Grammar) SymSrc(s Sym) string {
	if s.T {
		return g.Tokens[s.I].Src()
	}
	return g.NTs[s.I].Name
}

func (g *Grammar) SymTrace(s Sym) string {
	if s.T {
		return g.Tokens[s.I].TraceName()
	}
	return g.NTs[s.I].Name
}

func (g *Grammar) SymTag(s Sym) string {
	if s.T {
		return g.Tokens[s.I].Tag
	}
	return g.NTs[s.I].Tag
}

// Reference-grammar symbol numbering: tokens 0..T-1, EOF = T, Aug = T+1,
// nonterminal i = T+2+i.
func (g *Grammar) RefTok(i int) int { return i }
func (g *Grammar) RefEOF() int      { return len(g.Tokens) }
func (g *Grammar) RefNT(i int) int  { return len(g.Tokens) + 2 + i }
func (g *Grammar) RefSym(s Sym) int {
	if s.T {
		return s.I
	}
	return g.RefNT(s.I)
}

// TokPrec returns (level, assoc) per token; level 0 = none.
func (g *Grammar) TokPrec() ([]int, []int) {
	lv := make([]int, len(g.Tokens))
	as := make([]int, len(g.Tokens))
	for li, pl := range g.Precs {
		a := ref.AssocNon
		switch pl.Assoc {
		case "left":
			a = ref.AssocLeft
		case "right":
			a = ref.AssocRight
		}
		for _, t := range pl.Toks {
			lv[t] = li + 1
			as[t] = a
		}
	}
	return lv, as
}

// RulePrecTok returns the token index that gives rule r its precedence under
// the textbook definition (%prec symbol, else last terminal of the rhs), or -1.
func (g *Grammar) RulePrecTok(r int) int {
	ru := g.Rules[r]
	if ru.Prec >= 0 {
		return ru.Prec
	}
	for i := len(ru.Rhs) - 1; i >= 0; i-- {
		if ru.Rhs[i].T {
			return ru.Rhs[i].I
		}
	}
	return -1
}

// ToRef converts the specification to a reference grammar (rule k of the spec
// is rule k+1 of the reference grammar).
func (g *Grammar) ToRef() *ref.Grammar {
	nt := len(g.Tokens)
	n := nt + 2 + len(g.NTs)
	rg := &ref.Grammar{NSym: n, IsNT: make([]bool, n), Names: make([]string, n), EOF: nt, Aug: nt + 1}
	for i, t := range g.Tokens {
		rg.Names[i] = t.Src()
	}
	rg.Names[nt] = "$"
	rg.Names[nt+1] = "$accept"
	rg.IsNT[nt+1] = true
	for i, x := range g.NTs {
		rg.Names[nt+2+i] = x.Name
		rg.IsNT[nt+2+i] = true
	}
	rg.Rules = append(rg.Rules, ref.Rule{Lhs: rg.Aug, Rhs: []int{g.RefNT(g.Start)}})
	lv, as := g.TokPrec()
	rg.TokPrec = make([]int, n)
	rg.TokAssoc = make([]int, n)
	copy(rg.TokPrec, lv)
	copy(rg.TokAssoc, as)
	rg.RulePrec = []int{0}
	rg.RuleAssoc = []int{0}
	for k, r := range g.Rules {
		rr := ref.Rule{Lhs: g.RefNT(r.Lhs)}
		for _, s := range r.Rhs {
			rr.Rhs = append(rr.Rhs, g.RefSym(s))
		}
		rg.Rules = append(rg.Rules, rr)
		pt := g.RulePrecTok(k)
		if pt >= 0 {
			rg.RulePrec = append(rg.RulePrec, lv[pt])
			rg.RuleAssoc = append(rg.RuleAssoc, as[pt])
		} else {
			rg.RulePrec = append(rg.RulePrec, 0)
			rg.RuleAssoc = append(rg.RuleAssoc, 0)
		}
	}
	rg.Finish()
	return rg
}

// PrecAmbiguous reports rules whose precedence differs between "last
// terminal" and yaccgo's documented "last rhs symbol that has a precedence",
// (don't-care zone).
func (g *Grammar) PrecAmbiguous() bool {
	lv, _ := g.TokPrec()
	for _, r := range g.Rules {
		if r.Prec >= 0 {
			// %prec naming a token without a level: yacc and yaccgo agree (the rule has no precedence)
			continue
		}
		lastT, lastP := -1, -1
		for i := len(r.Rhs) - 1; i >= 0; i-- {
			if r.Rhs[i].T {
				if lastT < 0 {
					lastT = r.Rhs[i].I
				}
				if lastP < 0 && lv[r.Rhs[i].I] != 0 {
					lastP = r.Rhs[i].I
				}
			}
		}
		if lastP >= 0 && lastP != lastT {
			return true
		}
	}
	return false
}

// ---------------------------------------------------------------- values

// Value is a semantic value: string or int according to the tag.
type Value struct {
	S string
	N int
}

// TagIsInt tells whether a union field holds an int (fields n, m, nm) or a string (s, t, st).
// The two-letter fields are the concatenations of two others on purpose.
func TagIsInt(tag string) bool { return tag == "n" || tag == "m" || tag == "nm" }

// Hash of a string into an int (verifL in the drivers).
func StrHash(s string) int {
	h := 0
	for i := 0; i < len(s); i++ {
		h = (h*31 + int(s[i])) % 10007
	}
	return h
}

// TokenValue is the value the drivers' lexers give token instance (tok, pos).
func (g *Grammar) TokenValue(tok, pos int) Value {
	return Value{S: fmt.Sprintf("%c@%d", 'a'+tok%26, pos), N: (7*pos + tok + 1) % 10007}
}

// EvalRule computes the lhs value of rule k from the rhs values.
func (g *Grammar) EvalRule(k int, kids []Value) Value {
	r := g.Rules[k]
	ltag := g.NTs[r.Lhs].Tag
	if ltag == "" || r.Act.NoAssign {
		return Value{}
	}
	if r.Act.Plain {
		if TagIsInt(ltag) {
			v := 7
			for _, p := range r.Act.Refs {
				kv := kids[p-1]
				x := kv.N
				if !TagIsInt(g.SymTag(r.Rhs[p-1])) {
					x = StrHash(kv.S)
				}
				v += (2*p + 1) * x
			}
			return Value{N: v % 10007}
		}
		var sb strings.Builder
		sb.WriteString("(")
		for _, p := range r.Act.Refs {
			kv := kids[p-1]
			sb.WriteString(" ")
			if TagIsInt(g.SymTag(r.Rhs[p-1])) {
				sb.WriteString(strconv.Itoa(kv.N))
			} else {
				sb.WriteString(kv.S)
			}
		}
		sb.WriteString(")")
		return Value{S: sb.String()}
	}
	if TagIsInt(ltag) {
		v := r.Act.C0
		for i, p := range r.Act.Refs {
			kv := kids[p-1]
			x := kv.N
			if !TagIsInt(g.SymTag(r.Rhs[p-1])) {
				x = StrHash(kv.S)
			}
			v += r.Act.Coef[i] * x
		}
		return Value{N: v % 10007}
	}
	var sb strings.Builder
	sb.WriteString("(" + strconv.Itoa(k))
	for _, p := range r.Act.Refs {
		kv := kids[p-1]
		sb.WriteString(" ")
		if TagIsInt(g.SymTag(r.Rhs[p-1])) {
			sb.WriteString(strconv.Itoa(kv.N))
		} else {
			sb.WriteString(kv.S)
		}
	}
	sb.WriteString(")")
	return Value{S: sb.String()}
}

// ActionText renders the action of rule k (same text for Go and TypeScript).
func (g *Grammar) ActionText(k int) string {
	r := g.Rules[k]
	ltag := g.NTs[r.Lhs].Tag
	if r.Act.Plain && ltag != "" {
		if TagIsInt(ltag) {
			e := "7"
			for _, p := range r.Act.Refs {
				x := fmt.Sprintf("$%d", p)
				if !TagIsInt(g.SymTag(r.Rhs[p-1])) {
					x = "verifL(" + x + ")"
				}
				e += fmt.Sprintf(" + %d*%s", 2*p+1, x)
			}
			return "$$ = (" + e + ") % 10007"
		}
		e := "\"(\""
		for _, p := range r.Act.Refs {
			x := fmt.Sprintf("$%d", p)
			if TagIsInt(g.SymTag(r.Rhs[p-1])) {
				x = "verifI(" + x + ")"
			}
			e += " + \" \" + " + x
		}
		return "$$ = " + e + " + \")\""
	}
	s := fmt.Sprintf("verifR(%d)", k)
	if r.Act.Raw != "" {
		s += "; " + r.Act.Raw
	}
	if ltag == "" || r.Act.NoAssign {
		return s
	}
	if TagIsInt(ltag) {
		e := strconv.Itoa(r.Act.C0)
		for i, p := range r.Act.Refs {
			x := fmt.Sprintf("$%d", p)
			if !TagIsInt(g.SymTag(r.Rhs[p-1])) {
				x = "verifL(" + x + ")"
			}
			e += fmt.Sprintf(" + %d*%s", r.Act.Coef[i], x)
		}
		if r.Act.Accum {
			return s + "; $$ = ($$ + " + e + ") % 10007"
		}
		if r.Act.Pre {
			return s + "; $$ = 0; $$ = (" + e + ") % 10007"
		}
		return s + "; $$ = (" + e + ") % 10007"
	}
	e := fmt.Sprintf("\"(%d\"", k)
	for _, p := range r.Act.Refs {
		x := fmt.Sprintf("$%d", p)
		if TagIsInt(g.SymTag(r.Rhs[p-1])) {
			x = "verifI(" + x + ")"
		}
		e += " + \" \" + " + x
	}
	if r.Act.Accum {
		return s + "; $$ = $$ + " + e + " + \")\""
	}
	if r.Act.Pre {
		return s + "; $$ = \"\"; $$ = " + e + " + \")\""
	}
	return s + "; $$ = " + e + " + \")\""
}

// EvalTree evaluates the tree bottom-up (reference attribute evaluator).
// Tree symbols/rules use the reference numbering of ToRef.
func (g *Grammar) EvalTree(n *ref.Node) Value {
	// iterative post-order to stay independent of recursion depth
	type frame struct {
		n    *ref.Node
		next int
		vals []Value
	}
	stack := []*frame{{n: n}}
	var last Value
	for len(stack) > 0 {
		f := stack[len(stack)-1]
		if f.n.Rule < 0 {
			last = g.TokenValue(f.n.Sym, f.n.Tok)
			stack = stack[:len(stack)-1]
			if len(stack) > 0 {
				p := stack[len(stack)-1]
				p.vals = append(p.vals, last)
			}
			continue
		}
		if f.next < len(f.n.Kids) {
			k := f.n.Kids[f.next]
			f.next++
			stack = append(stack, &frame{n: k})
			continue
		}
		last = g.EvalRule(f.n.Rule-1, f.vals)
		stack = stack[:len(stack)-1]
		if len(stack) > 0 {
			p := stack[len(stack)-1]
			p.vals = append(p.vals, last)
		}
	}
	return last
}

// DefaultActs fills every rule's action so that all tagged rhs symbols are referenced.
func (g *Grammar) DefaultActs() {
	for k := range g.Rules {
		r := &g.Rules[k]
		r.Act.Refs = nil
		r.Act.Coef = nil
		for i, s := range r.Rhs {
			if g.SymTag(s) != "" {
				r.Act.Refs = append(r.Act.Refs, i+1)
				r.Act.Coef = append(r.Act.Coef, 3+2*i)
			}
		}
		r.Act.C0 = 11 + k
	}
}
