// Package yx runs acekingke/yaccgo in-process and extracts what it built.
package yx

import (
	"fmt"
	"io"
	"os"
	"runtime/debug"
	"strings"
	"sync"

	parser "github.com/acekingke/yaccgo/Parser"
	symbol "github.com/acekingke/yaccgo/Symbol"
	utils "github.com/acekingke/yaccgo/Utils"

	"verif/harness/ref"
)

// Built is the outcome of one in-process ParseAndBuild.
type Built struct {
	Root   *parser.RootVistor
	Stdout string
	Err    error  // error value returned
	Panic  string // recovered panic text ("" if none)
	Stack  string
	// RuntimeErr is set when the panic value was a runtime.Error (nil deref, index out of range...)
	RuntimeErr bool
}

func (b *Built) OK() bool { return b.Root != nil && b.Err == nil && b.Panic == "" }

var stdoutMu sync.Mutex

// CaptureStdout runs f with os.Stdout redirected and returns what was printed.
func CaptureStdout(f func()) string {
	stdoutMu.Lock()
	defer stdoutMu.Unlock()
	old := os.Stdout
	r, w, err := os.Pipe()
	if err != nil {
		panic(err)
	}
	os.Stdout = w
	done := make(chan string)
	go func() {
		b, _ := io.ReadAll(r)
		done <- string(b)
	}()
	func() {
		defer func() {
			os.Stdout = old
			w.Close()
		}()
		f()
	}()
	out := <-done
	r.Close()
	return out
}

// Build runs ParseAndBuild on text with the given flags.
func Build(text string, debug_ bool) *Built {
	b := &Built{}
	b.Stdout = CaptureStdout(func() {
		defer func() {
			if e := recover(); e != nil {
				b.Panic = fmt.Sprint(e)
				if _, ok := e.(interface{ RuntimeError() }); ok {
					b.RuntimeErr = true
				}
				b.Stack = string(debug.Stack())
			}
		}()
		utils.DebugFlags = debug_
		utils.GenDotGraph = false
		w, err := parser.ParseAndBuild(text)
		if err != nil {
			b.Err = err
			return
		}
		b.Root = w.VistorNode.(*parser.RootVistor)
	})
	utils.DebugFlags = false
	return b
}

// ToRef converts yaccgo's own grammar (same symbol ids, same rule numbers)
// into a reference grammar, taking precedence data from yaccgo's symbols.
func ToRef(root *parser.RootVistor) *ref.Grammar {
	G := root.G
	n := len(G.Symbols)
	rg := &ref.Grammar{NSym: n, IsNT: make([]bool, n), Names: make([]string, n), EOF: 1, Aug: 0}
	rg.TokPrec = make([]int, n)
	rg.TokAssoc = make([]int, n)
	for i, s := range G.Symbols {
		if int(s.ID) != i {
			panic(fmt.Sprintf("yx: symbol %q has ID %d at position %d", s.Name, s.ID, i))
		}
		rg.Names[i] = s.Name
		rg.IsNT[i] = s.IsNonTerminator
		if s.Prec > 0 {
			rg.TokPrec[i] = s.Prec
			rg.TokAssoc[i] = assoc(s.PrecType)
		}
	}
	for _, r := range G.ProductoinRules {
		rr := ref.Rule{Lhs: int(r.LeftPart.ID)}
		for _, s := range r.RighPart {
			rr.Rhs = append(rr.Rhs, int(s.ID))
		}
		rg.Rules = append(rg.Rules, rr)
		if r.PrecSymbol != nil && r.PrecSymbol.Prec > 0 {
			rg.RulePrec = append(rg.RulePrec, r.PrecSymbol.Prec)
			rg.RuleAssoc = append(rg.RuleAssoc, assoc(r.PrecSymbol.PrecType))
		} else {
			rg.RulePrec = append(rg.RulePrec, 0)
			rg.RuleAssoc = append(rg.RuleAssoc, 0)
		}
	}
	rg.Finish()
	return rg
}

func assoc(t symbol.E_Precedence) int {
	switch t {
	case symbol.LEFT:
		return ref.AssocLeft
	case symbol.RIGHT:
		return ref.AssocRight
	}
	return ref.AssocNon
}

// StateItems returns yaccgo's item set of state i as sorted reference item codes.
func StateItems(root *parser.RootVistor, i int) []int {
	ic := root.G.LR0.LR0Closure[i]
	res := make([]int, 0, len(ic.Items))
	for _, it := range ic.Items {
		res = append(res, ref.Item(it.RuleIndex, it.Dot))
	}
	sortInts(res)
	return res
}

func sortInts(a []int) {
	for i := 1; i < len(a); i++ {
		for j := i; j > 0 && a[j] < a[j-1]; j-- {
			a[j], a[j-1] = a[j-1], a[j]
		}
	}
}

// Warning is one conflict warning printed by yaccgo.
type Warning struct {
	State, Sym int
	K1, K2     string
}

// ParseWarnings extracts the conflict warnings from captured stdout.
func ParseWarnings(out string) []Warning {
	var res []Warning
	const pre = "warning: has the conflic "
	for {
		i := strings.Index(out, pre)
		if i < 0 {
			break
		}
		out = out[i+len(pre):]
		var w Warning
		n, err := fmt.Sscanf(out, "%d, sym %d, conflict Type %s %s", &w.State, &w.Sym, &w.K1, &w.K2)
		if err == nil && n == 4 {
			w.K1 = strings.TrimSuffix(w.K1, ",")
			res = append(res, w)
		} else {
			res = append(res, Warning{State: -1, Sym: -1})
		}
	}
	return res
}
