// Package gen holds the workload generators (pure functions of a PRNG).
package gen

import (
	"fmt"
	"math/rand"
	"strings"

	"verif/harness/spec"
)

// Parse reads a compact grammar: "S: a A d | a B e; A: c; B: ;".
// Names on a left-hand side are nonterminals; other identifiers become tokens
// named T<name>; 'c' is a character literal. "%left a b" style lines may
// precede, separated by ';'. A rule alternative may end in "%prec x".
func Parse(txt string) *spec.Grammar {
	g := &spec.Grammar{}
	parts := strings.Split(txt, ";")
	nt := map[string]int{}
	var ruleParts []string
	var precParts []string
	for _, p := range parts {
		p = strings.TrimSpace(p)
		if p == "" {
			continue
		}
		if strings.HasPrefix(p, "%") {
			precParts = append(precParts, p)
			continue
		}
		ruleParts = append(ruleParts, p)
		name := strings.TrimSpace(p[:strings.Index(p, ":")])
		if _, ok := nt[name]; !ok {
			nt[name] = len(g.NTs)
			g.NTs = append(g.NTs, spec.NT{Name: name, Tag: "s"})
		}
	}
	tok := map[string]int{}
	getTok := func(w string) int {
		if i, ok := tok[w]; ok {
			return i
		}
		t := spec.Token{Decl: "token", Tag: "s"}
		if strings.HasPrefix(w, "'") {
			t.Lit = int(w[1])
			if w == `'\''` {
				t.Lit = '\''
			}
		} else {
			t.Name = "T" + w
		}
		tok[w] = len(g.Tokens)
		g.Tokens = append(g.Tokens, t)
		return tok[w]
	}
	for _, p := range ruleParts {
		i := strings.Index(p, ":")
		lhs := nt[strings.TrimSpace(p[:i])]
		for _, alt := range strings.Split(p[i+1:], "|") {
			r := spec.Rule{Lhs: lhs, Prec: -1}
			ws := strings.Fields(alt)
			for j := 0; j < len(ws); j++ {
				w := ws[j]
				if w == "%prec" {
					r.Prec = getTok(ws[j+1])
					j++
					continue
				}
				if n, ok := nt[w]; ok {
					r.Rhs = append(r.Rhs, spec.Sym{I: n})
				} else {
					r.Rhs = append(r.Rhs, spec.Sym{T: true, I: getTok(w)})
				}
			}
			g.Rules = append(g.Rules, r)
		}
	}
	for _, p := range precParts {
		ws := strings.Fields(p)
		pl := spec.PrecLine{Assoc: strings.TrimPrefix(ws[0], "%")}
		for _, w := range ws[1:] {
			pl.Toks = append(pl.Toks, getTok(w))
		}
		g.Precs = append(g.Precs, pl)
	}
	g.DefaultActs()
	g.Note = txt
	return g
}

// Families are curated grammars that separate the grammar classes.
func Families() []*spec.Grammar {
	src := []string{
		// LR(0)
		"S: a S b | c",
		"S: A B; A: a; B: b",
		// SLR(1) not LR(0)
		"E: E '+' T | T; T: T '*' F | F; F: '(' E ')' | n",
		"S: A a | b; A: ",
		// LALR(1) not SLR(1)
		"S: L '=' R | R; L: '*' R | i; R: L",
		"S: a A d | a B e | b A e; A: c; B: c",
		"S: a B e | a A d | b A e; B: c; A: c",
		"S: A a | b A c | d c | b d a; A: d",
		"S: a A d | b B d | a B e; A: c; B: c",
		// NQLALR merges too much
		"S: a g d | a A c | b A d | b g c; A: B; B: g",
		// LR(1) not LALR(1)
		"S: a A d | b B d | a B e | b A e; A: c; B: c",
		"S: a B e | b A e | a A d | b B d; B: c; A: c",
		// dangling else
		"S: i S | i S e S | x",
		// ambiguous expressions
		"E: E '+' E | E '*' E | n",
		"%left '+'; %left '*'; E: E '+' E | E '*' E | '(' E ')' | n",
		"%right '='; %left '+' '-'; %left '*'; %nonassoc '<'; E: E '=' E | E '+' E | E '-' E | E '*' E | E '<' E | n",
		"%left '+' '-'; %left '*'; %right u; E: E '+' E | E '-' E | E '*' E | '-' E %prec u | n",
		"%nonassoc '<'; E: E '<' E | n",
		// epsilon heavy
		"S: A B C; A: a | ; B: b | ; C: c | ",
		"S: A A A A; A: B B; B: C C; C: ",
		"S: A B C d; A: | a; B: | A; C: | B",
		"L: | E L; E: n",
		"L: | L E; E: n",
		// includes cycles through nullable suffixes
		"S: A x; A: B C; B: A D | b; C: | c; D: | d",
		"S: A; A: B N; B: A N | b; N: ",
		// reads cycles
		"X: A B X | c; A: ; B: ",
		"S: S A | ; A: | a",
		"A: A A | ",
		// rings in the includes relation entered from several contexts
		"S: o1 A c1 | o2 B c2 | o3 C c3 | o4 D c4; A: a B; B: b C; C: c D; D: d A | e",
		"S: o1 A c1 | o2 B c2 | o3 C c3; A: a B N; B: b C N; C: c A | e; N: | n",
		// D12 witness: follow sets of a strongly connected component shared one slice and were appended to in place
		"A: ; L: A A | g | A L L f z d A A L e L d | q e z q g g d c c f f; A: L",
		// D13 witness: state 7's row is displaced to offset -4, its goto on A is the column default
		"%nonassoc a; A: C E a | %prec a | a C %prec a; B: A A a a %prec a; C: A a a a | C; D: ; E: | B a a | C D B E %prec a; A: B; B: A",
		// cyclic
		"S: A; A: B; B: A | x",
		"U: U | u",
		// unreachable, duplicate rules
		"S: a; Z: z Z | z",
		"S: a | a",
		"S: A | B; A: a; B: a",
		// recursion shapes
		"S: a S | a",
		"S: S a | a",
		"S: A a | a; A: S b",
		"S: '(' S ')' S | ",
		"S: S S | a | ",
		"P: P E n | ; E: E '+' E | x",
	}
	var res []*spec.Grammar
	for _, s := range src {
		res = append(res, Parse(s))
	}
	return res
}

// RandCfg bounds the random grammar generator.
type RandCfg struct {
	MaxT, MaxNT, MaxAlt, MaxRhs int
	Lits                        bool // use character literals for some tokens
	Prec                        bool // add precedence lines
}

var litPool = []byte("+-*/=<>()[],.!?&^~#@aeoprtxZ09$_")

// Rand produces a random grammar (not necessarily usable).
func Rand(r *rand.Rand, c RandCfg) *spec.Grammar {
	g := &spec.Grammar{}
	nT := 1 + r.Intn(c.MaxT)
	nN := 1 + r.Intn(c.MaxNT)
	used := map[byte]bool{}
	for i := 0; i < nT; i++ {
		t := spec.Token{Decl: "token", Tag: "s"}
		if c.Lits && r.Intn(3) == 0 {
			ch := litPool[r.Intn(len(litPool))]
			for used[ch] {
				ch = litPool[r.Intn(len(litPool))]
			}
			used[ch] = true
			t.Lit = int(ch)
			if r.Intn(2) == 0 {
				t.Decl = "none"
				t.Tag = ""
			}
		} else {
			t.Name = fmt.Sprintf("T%c", 'a'+i)
		}
		g.Tokens = append(g.Tokens, t)
	}
	for i := 0; i < nN; i++ {
		g.NTs = append(g.NTs, spec.NT{Name: fmt.Sprintf("N%c", 'A'+i), Tag: "s"})
	}
	shape := r.Intn(8)
	for i := 0; i < nN; i++ {
		na := 1 + r.Intn(c.MaxAlt)
		for a := 0; a < na; a++ {
			ru := spec.Rule{Lhs: i, Prec: -1}
			ln := r.Intn(c.MaxRhs + 1)
			if r.Intn(5) == 0 {
				ln = 0
			}
			for j := 0; j < ln; j++ {
				if r.Intn(2) == 0 {
					ru.Rhs = append(ru.Rhs, spec.Sym{T: true, I: r.Intn(nT)})
				} else {
					n := r.Intn(nN)
					switch shape {
					case 0: // left recursion bias
						if j == 0 {
							n = i
						}
					case 1: // right recursion bias
						if j == ln-1 {
							n = i
						}
					case 2: // chain to next
						n = (i + 1) % nN
					}
					ru.Rhs = append(ru.Rhs, spec.Sym{I: n})
				}
			}
			g.Rules = append(g.Rules, ru)
		}
	}
	if shape == 3 && nN >= 2 {
		// cyclic unit rules
		g.Rules = append(g.Rules, spec.Rule{Lhs: 0, Rhs: []spec.Sym{{I: 1}}, Prec: -1}, spec.Rule{Lhs: 1, Rhs: []spec.Sym{{I: 0}}, Prec: -1})
	}
	if shape == 4 {
		// duplicate a rule
		d := g.Rules[r.Intn(len(g.Rules))]
		g.Rules = append(g.Rules, spec.Rule{Lhs: d.Lhs, Rhs: append([]spec.Sym{}, d.Rhs...), Prec: -1})
	}
	// group rules by lhs order already; keep file order = generation order
	if c.Prec && r.Intn(2) == 0 {
		perm := r.Perm(nT)
		nl := 1 + r.Intn(3)
		pi := 0
		for l := 0; l < nl && pi < nT; l++ {
			pl := spec.PrecLine{Assoc: []string{"left", "right", "nonassoc"}[r.Intn(3)]}
			cnt := 1 + r.Intn(2)
			for k := 0; k < cnt && pi < nT; k++ {
				pl.Toks = append(pl.Toks, perm[pi])
				pi++
			}
			g.Precs = append(g.Precs, pl)
		}
		// tokens only used in rules cannot sit on a precedence line without becoming declared
		for _, pl := range g.Precs {
			for _, ti := range pl.Toks {
				if g.Tokens[ti].Decl == "none" {
					g.Tokens[ti].Decl = "prec"
				}
			}
		}
		// occasional %prec
		for k := range g.Rules {
			if r.Intn(6) == 0 && len(g.Precs) > 0 {
				pl := g.Precs[r.Intn(len(g.Precs))]
				g.Rules[k].Prec = pl.Toks[r.Intn(len(pl.Toks))]
			}
		}
	}
	g.Start = 0
	g.DefaultActs()
	return g
}

// Usable reports whether every nonterminal is productive and has a rule.
func Usable(g *spec.Grammar) bool {
	rg := g.ToRef()
	has := make([]bool, len(g.NTs))
	for _, r := range g.Rules {
		has[r.Lhs] = true
	}
	for _, h := range has {
		if !h {
			return false
		}
	}
	p := rg.Productive()
	for i := range g.NTs {
		if !p[g.RefNT(i)] {
			return false
		}
	}
	return true
}

// RandUsable draws random grammars until one is usable.
func RandUsable(r *rand.Rand, c RandCfg) *spec.Grammar {
	for {
		g := Rand(r, c)
		if Usable(g) {
			return g
		}
	}
}

// OpTable produces an operator grammar with precedence declarations.
func OpTable(r *rand.Rand) *spec.Grammar {
	g := &spec.Grammar{}
	g.NTs = []spec.NT{{Name: "E", Tag: "s"}}
	nl := 1 + r.Intn(6)
	ops := []byte("+-*/=<>&^~#@!?%|$\"{}:;")
	r.Shuffle(len(ops), func(i, j int) { ops[i], ops[j] = ops[j], ops[i] })
	oi := 0
	num := len(g.Tokens)
	g.Tokens = append(g.Tokens, spec.Token{Name: "NUM", Decl: "token", Tag: "s"})
	lp := len(g.Tokens)
	g.Tokens = append(g.Tokens, spec.Token{Lit: '(', Decl: "none"})
	rp := len(g.Tokens)
	g.Tokens = append(g.Tokens, spec.Token{Lit: ')', Decl: "none"})
	E := spec.Sym{I: 0}
	var levelTok [][]int
	for l := 0; l < nl; l++ {
		pl := spec.PrecLine{Assoc: []string{"left", "right", "nonassoc"}[r.Intn(3)]}
		nb := r.Intn(4) // 0..3 binary operators; 0 = operator-less level (named pseudo token)
		if nb == 0 {
			ti := len(g.Tokens)
			g.Tokens = append(g.Tokens, spec.Token{Name: fmt.Sprintf("P%d", l), Decl: "prec"})
			pl.Toks = append(pl.Toks, ti)
		}
		for b := 0; b < nb && oi < len(ops); b++ {
			ti := len(g.Tokens)
			g.Tokens = append(g.Tokens, spec.Token{Lit: int(ops[oi]), Decl: "prec"})
			oi++
			pl.Toks = append(pl.Toks, ti)
			g.Rules = append(g.Rules, spec.Rule{Lhs: 0, Rhs: []spec.Sym{E, {T: true, I: ti}, E}, Prec: -1})
		}
		if len(pl.Toks) == 0 {
			// operator characters exhausted: the level gets a pseudo token of its own
			ti := len(g.Tokens)
			g.Tokens = append(g.Tokens, spec.Token{Name: fmt.Sprintf("P%d", l), Decl: "prec"})
			pl.Toks = append(pl.Toks, ti)
		}
		g.Precs = append(g.Precs, pl)
		levelTok = append(levelTok, pl.Toks)
	}
	// prefix operators with %prec to a random level
	np := r.Intn(3)
	usedPrefix := map[int]bool{}
	for p := 0; p < np; p++ {
		var ti int
		if r.Intn(2) == 0 && oi < len(ops) {
			// a fresh operator character without own precedence
			ti = len(g.Tokens)
			g.Tokens = append(g.Tokens, spec.Token{Lit: int(ops[oi]), Decl: "none"})
			oi++
		} else {
			// reuse a binary operator (like unary minus)
			var cands []int
			for i, t := range g.Tokens {
				if t.Decl == "prec" && t.Name == "" {
					cands = append(cands, i)
				}
			}
			if len(cands) == 0 {
				continue
			}
			ti = cands[r.Intn(len(cands))]
		}
		if usedPrefix[ti] {
			continue
		}
		usedPrefix[ti] = true
		lv := levelTok[r.Intn(len(levelTok))]
		pt := lv[0]
		if r.Intn(6) == 0 {
			pt = num // %prec NUM: a token without a level takes the rule's precedence away
		}
		g.Rules = append(g.Rules, spec.Rule{Lhs: 0, Rhs: []spec.Sym{{T: true, I: ti}, E}, Prec: pt})
	}
	g.Rules = append(g.Rules, spec.Rule{Lhs: 0, Rhs: []spec.Sym{{T: true, I: lp}, E, {T: true, I: rp}}, Prec: -1})
	g.Rules = append(g.Rules, spec.Rule{Lhs: 0, Rhs: []spec.Sym{{T: true, I: num}}, Prec: -1})
	// shuffle rule order: r/r never arises here, file order must not matter
	r.Shuffle(len(g.Rules), func(i, j int) { g.Rules[i], g.Rules[j] = g.Rules[j], g.Rules[i] })
	if r.Intn(6) == 0 {
		// more than 127 / 255 precedence levels: padding levels (a pseudo token each, never used in a
		// rule, appended after the real tokens) are interleaved with the real ones
		npad := 120 + r.Intn(150)
		precs := g.Precs
		g.Precs = nil
		at := make([]int, npad) // number of real levels before each padding level
		for i := range at {
			at[i] = r.Intn(len(precs) + 1)
		}
		for k := 0; k <= len(precs); k++ {
			for i := range at {
				if at[i] == k {
					ti := len(g.Tokens)
					g.Tokens = append(g.Tokens, spec.Token{Name: fmt.Sprintf("PAD%03d", i), Decl: "prec"})
					g.Precs = append(g.Precs, spec.PrecLine{Assoc: []string{"left", "right", "nonassoc"}[r.Intn(3)], Toks: []int{ti}})
				}
			}
			if k < len(precs) {
				g.Precs = append(g.Precs, precs[k])
			}
		}
	}
	g.DefaultActs()
	return g
}

// RichCfg controls Rich.
type RichCfg struct {
	Names    bool // stress identifier shapes
	IntTags  bool // use all four union fields (s, t string; n, m int)
	LongRhs  bool // rules up to length 12
	EOFAlias bool // sometimes declare a token with number -1 (alias of the end marker)
}

var nameShapes = []string{"x", "Tok", "_t", "t_1", "T9", "LongTokenNameWithManyLettersAndDigits0123456789", "tÄ", "ñandú", "Λ", "t__", "Z_z",
	// names that are another name plus digits, or differ only in case
	"X", "X1", "X11", "X2", "T1", "T12", "tok",
	// names that look like words of the grammar language or of the generator itself
	"token", "left", "prec", "accept", "end", "operator", "union_x", "Left", "TOKEN",
	// names whose concatenations with '_' coincide (AA_BB CC / AA BB_CC)
	"AA", "BB", "CC", "AA_BB", "BB_CC"}

// Rich produces a usable random grammar that exercises the declaration
// section: explicit token numbers, literals, tags, tokens declared by %token /
// only by a precedence line / only used in rules, %prec, non-first start symbol.
func Rich(r *rand.Rand, c RichCfg) *spec.Grammar {
	for {
		g := rich(r, c)
		if Usable(g) && !g.PrecAmbiguous() {
			return g
		}
	}
}

func rich(r *rand.Rand, c RichCfg) *spec.Grammar {
	g := &spec.Grammar{}
	tags := []string{"s"}
	if c.IntTags {
		tags = []string{"s", "t", "n", "m", "st", "nm"}
	}
	nT := 2 + r.Intn(6)
	nN := 1 + r.Intn(5)
	usedLit := map[int]bool{}
	usedNum := map[int]bool{}
	usedName := map[string]bool{}
	var allNames []string
	swapCase := func(n string) string {
		b := []rune(n)
		for i, ch := range b {
			switch {
			case ch >= 'a' && ch <= 'z':
				b[i] = ch - 32
			case ch >= 'A' && ch <= 'Z':
				b[i] = ch + 32
			}
		}
		return string(b)
	}
	mkName0 := func(prefix string, i int) string { return "" }
	mkName := func(prefix string, i int) string {
		// names that are equal under a derived key (case folding): "sort by key, forget the tie-break" mistakes show up only then
		if c.Names && len(allNames) > 0 && r.Intn(4) == 0 {
			tw := swapCase(allNames[r.Intn(len(allNames))])
			if !usedName[tw] && tw != swapCase(tw) {
				usedName[tw] = true
				allNames = append(allNames, tw)
				return tw
			}
		}
		n := mkName0(prefix, i)
		allNames = append(allNames, n)
		return n
	}
	mkName0 = func(prefix string, i int) string {
		if c.Names && r.Intn(2) == 0 {
			for k := 0; k < 10; k++ {
				n := nameShapes[r.Intn(len(nameShapes))]
				if prefix == "N" {
					n = "n" + n
				}
				if !usedName[n] {
					usedName[n] = true
					return n
				}
			}
		}
		n := fmt.Sprintf("%s%c", prefix, 'a'+i)
		if prefix == "N" {
			n = fmt.Sprintf("N%c", 'A'+i)
		}
		usedName[n] = true
		return n
	}
	// ASCII punctuation and letters, literals outside ASCII (pairs that share their first UTF-8 byte), control characters and line separators
	litChars := []rune("+-*/=<>()[],.!?&^~#@:;|%\"'{}$`\\xXaA09zZéè×÷€→←加减\t\n\r\u2028\u0001")
	if !c.Names {
		litChars = []rune(string(litPool))
	}
	for i := 0; i < nT; i++ {
		t := spec.Token{Decl: "token"}
		switch r.Intn(5) {
		case 0, 1: // literal
			ch := int(litChars[r.Intn(len(litChars))])
			for usedLit[ch] || usedNum[ch] || ch == '\\' {
				ch = int(litChars[r.Intn(len(litChars))])
			}
			usedLit[ch] = true
			t.Lit = ch
			switch r.Intn(3) {
			case 0:
				t.Decl = "none"
			case 1:
				t.Decl = "token"
			default:
				t.Decl = "none" // may be promoted to "prec" below
			}
		default:
			t.Name = mkName("T", i)
			if r.Intn(3) == 0 {
				// explicit number outside the printable ASCII range
				for {
					n := 1 + r.Intn(31)
					if r.Intn(2) == 0 {
						n = 128 + r.Intn(800)
					}
					if r.Intn(8) == 0 {
						// around the 8-, 16- and 20-bit sizes
						// ... and the 31-, 32- and 40-bit sizes (JavaScript's bitwise operators work on 32 bits)
						big := []int{255, 256, 257, 65535, 65536, 65537, 1 << 20, 1<<20 + 1,
							1<<31 - 1, 1 << 31, 1<<31 + 1, 1<<32 - 1, 1 << 32, 1<<32 + 43, 1 << 40}
						n = big[r.Intn(len(big))]
					}
					// a number equal to the code of a literal of the same grammar would be the user's own collision
					if !usedNum[n] && !usedLit[n] {
						usedNum[n] = true
						t.Num = n
						break
					}
				}
			}
		}
		if t.Decl == "token" && r.Intn(4) != 0 {
			t.Tag = tags[r.Intn(len(tags))]
		}
		g.Tokens = append(g.Tokens, t)
	}
	for i := 0; i < nN; i++ {
		nt := spec.NT{Name: mkName("N", i)}
		if r.Intn(5) != 0 || i == 0 {
			nt.Tag = tags[r.Intn(len(tags))]
		}
		g.NTs = append(g.NTs, nt)
	}
	// precedence lines
	if r.Intn(3) != 0 {
		perm := r.Perm(nT)
		nl := 1 + r.Intn(3)
		pi := 0
		for l := 0; l < nl && pi < nT; l++ {
			pl := spec.PrecLine{Assoc: []string{"left", "right", "nonassoc"}[r.Intn(3)]}
			cnt := 1 + r.Intn(2)
			for k := 0; k < cnt && pi < nT; k++ {
				pl.Toks = append(pl.Toks, perm[pi])
				pi++
			}
			g.Precs = append(g.Precs, pl)
		}
		for _, pl := range g.Precs {
			ptag := ""
			for _, ti := range pl.Toks {
				t := &g.Tokens[ti]
				if t.Decl == "none" || (t.Decl == "token" && t.Num == 0 && r.Intn(3) == 0) {
					t.Decl = "prec"
					// all tokens first declared on one precedence line share its tag
					if ptag == "" && r.Intn(2) == 0 {
						ptag = tags[r.Intn(len(tags))]
					}
					t.Tag = ptag
				}
			}
			// a tag on a precedence line applies to every token on it: keep it
			// only if the tokens declared elsewhere carry the same tag
			for _, ti := range pl.Toks {
				if g.Tokens[ti].Decl == "token" && g.Tokens[ti].Tag != ptag {
					ptag = ""
				}
			}
			for _, ti := range pl.Toks {
				if g.Tokens[ti].Decl == "prec" {
					g.Tokens[ti].Tag = ptag
				}
			}
		}
	}
	for i := range g.Tokens {
		if g.Tokens[i].Decl == "none" {
			g.Tokens[i].Tag = ""
		}
	}
	maxRhs := 4
	if c.LongRhs {
		maxRhs = 12
	}
	for i := 0; i < nN; i++ {
		na := 1 + r.Intn(3)
		for a := 0; a < na; a++ {
			ru := spec.Rule{Lhs: i, Prec: -1}
			ln := r.Intn(maxRhs + 1)
			if c.LongRhs && r.Intn(3) != 0 {
				ln = r.Intn(5)
			}
			if r.Intn(5) == 0 {
				ln = 0
			}
			for j := 0; j < ln; j++ {
				if r.Intn(5) < 3 {
					ru.Rhs = append(ru.Rhs, spec.Sym{T: true, I: r.Intn(nT)})
				} else {
					ru.Rhs = append(ru.Rhs, spec.Sym{I: r.Intn(nN)})
				}
			}
			if len(g.Precs) > 0 && r.Intn(5) == 0 {
				pl := g.Precs[r.Intn(len(g.Precs))]
				ru.Prec = pl.Toks[r.Intn(len(pl.Toks))]
				if r.Intn(4) == 0 {
					// %prec naming a declared token that is on no precedence line: the rule then has
					// no precedence at all (as in yacc), whatever its own terminals carry
					inPrec := map[int]bool{}
					for _, l := range g.Precs {
						for _, t := range l.Toks {
							inPrec[t] = true
						}
					}
					for t := range g.Tokens {
						if !inPrec[t] && g.Tokens[t].Decl == "token" && g.Tokens[t].Num != -1 {
							ru.Prec = t
							break
						}
					}
				}
			}
			g.Rules = append(g.Rules, ru)
		}
	}
	if c.LongRhs {
		// one rule of 10-12 symbols, mostly terminals so that it is easy to derive, reachable from the start symbol
		ln := 10 + r.Intn(3)
		ru := spec.Rule{Lhs: r.Intn(nN), Prec: -1}
		for j := 0; j < ln; j++ {
			if r.Intn(6) == 0 {
				ru.Rhs = append(ru.Rhs, spec.Sym{I: r.Intn(nN)})
			} else {
				ru.Rhs = append(ru.Rhs, spec.Sym{T: true, I: r.Intn(nT)})
			}
		}
		g.Rules = append(g.Rules, ru)
		g.Rules = append(g.Rules, spec.Rule{Lhs: 0, Rhs: []spec.Sym{{I: ru.Lhs}}, Prec: -1})
	}
	// an occasional second block of rules for an earlier nonterminal
	if r.Intn(3) == 0 {
		g.Rules = append(g.Rules, spec.Rule{Lhs: r.Intn(nN), Rhs: []spec.Sym{{T: true, I: r.Intn(nT)}}, Prec: -1})
	}
	g.Start = r.Intn(nN)
	// literals that are neither declared nor used do not exist: declare them
	for i := range g.Tokens {
		if g.Tokens[i].Decl == "none" {
			used := false
			for _, ru := range g.Rules {
				for _, s := range ru.Rhs {
					if s.T && s.I == i {
						used = true
					}
				}
			}
			if !used {
				g.Tokens[i].Decl = "token"
			}
		}
	}
	// an alias of the end marker (the repository's own idiom: %token EOF -1)
	if c.EOFAlias && r.Intn(3) == 0 {
		g.Tokens = append(g.Tokens, spec.Token{Name: mkName("T", len(g.Tokens)) + "End", Num: -1, Decl: "token"})
	}
	// hostile explicit number: just above the largest code in use, i.e. inside the
	// range from which the automatic codes will be drawn
	if r.Intn(2) == 0 {
		maxv, autos := 2, len(g.NTs)
		var named []int
		for i, t := range g.Tokens {
			v := t.Num
			if t.Name == "" {
				v = t.Lit
			} else if !t.IsEOFAlias() {
				named = append(named, i)
				if t.Num == 0 {
					autos++
				}
			}
			if v > maxv {
				maxv = v
			}
		}
		if len(named) > 0 {
			ti := named[r.Intn(len(named))]
			if g.Tokens[ti].Decl == "token" {
				g.Tokens[ti].Num = maxv + 1 + r.Intn(autos+2)
			}
		}
	}
	// random subset of references, random coefficients
	for k := range g.Rules {
		ru := &g.Rules[k]
		ru.Act.C0 = 1 + r.Intn(50)
		for i, s := range ru.Rhs {
			if g.SymTag(s) != "" && (r.Intn(4) != 0 || i >= 9) {
				ru.Act.Refs = append(ru.Act.Refs, i+1)
				ru.Act.Coef = append(ru.Act.Coef, 1+r.Intn(9))
			}
		}
	}
	return g
}

// Contexts produces grammars of the shape found in statement-level syntax:
// a few contexts (keyword, body, terminator) sharing body nonterminals, bodies
// made of separator lists and optional tails with 0-4 alternatives. Such
// grammars have several nonterminal transitions on one symbol, follow sets
// that differ per context, and direct-read sets of every small size.
func Contexts(r *rand.Rand) *spec.Grammar {
	g := &spec.Grammar{}
	tok := func(name string) int {
		g.Tokens = append(g.Tokens, spec.Token{Name: name, Decl: "token", Tag: "s"})
		return len(g.Tokens) - 1
	}
	nt := func(name string) int {
		g.NTs = append(g.NTs, spec.NT{Name: name, Tag: "s"})
		return len(g.NTs) - 1
	}
	T := func(i int) spec.Sym { return spec.Sym{T: true, I: i} }
	N := func(i int) spec.Sym { return spec.Sym{I: i} }
	S := nt("S")
	nBodies := 1 + r.Intn(3)
	var bodies []int
	atomTok := tok("Tn")
	atom := nt("Atom")
	g.Rules = append(g.Rules, spec.Rule{Lhs: atom, Rhs: []spec.Sym{T(atomTok)}, Prec: -1})
	if r.Intn(2) == 0 {
		id := tok("Ti")
		g.Rules = append(g.Rules, spec.Rule{Lhs: atom, Rhs: []spec.Sym{T(id)}, Prec: -1})
	}
	for b := 0; b < nBodies; b++ {
		body := nt(fmt.Sprintf("Body%d", b))
		bodies = append(bodies, body)
		// head: atom or separator list of atoms
		head := atom
		if r.Intn(2) == 0 {
			lst := nt(fmt.Sprintf("List%d", b))
			sep := tok(fmt.Sprintf("Tsep%d", b))
			if r.Intn(2) == 0 {
				g.Rules = append(g.Rules, spec.Rule{Lhs: lst, Rhs: []spec.Sym{N(lst), T(sep), N(atom)}, Prec: -1})
			} else {
				g.Rules = append(g.Rules, spec.Rule{Lhs: lst, Rhs: []spec.Sym{N(atom), T(sep), N(lst)}, Prec: -1})
			}
			g.Rules = append(g.Rules, spec.Rule{Lhs: lst, Rhs: []spec.Sym{N(atom)}, Prec: -1})
			head = lst
		}
		rhs := []spec.Sym{N(head)}
		// optional tail with k terminal alternatives (+ epsilon)
		if r.Intn(3) != 0 {
			tail := nt(fmt.Sprintf("Tail%d", b))
			k := r.Intn(5)
			if r.Intn(4) != 0 || k == 0 {
				g.Rules = append(g.Rules, spec.Rule{Lhs: tail, Prec: -1})
			}
			for j := 0; j < k; j++ {
				tt := tok(fmt.Sprintf("Tt%d_%d", b, j))
				alt := []spec.Sym{T(tt)}
				if r.Intn(4) == 0 {
					alt = append(alt, N(atom))
				}
				g.Rules = append(g.Rules, spec.Rule{Lhs: tail, Rhs: alt, Prec: -1})
			}
			rhs = append(rhs, N(tail))
		}
		g.Rules = append(g.Rules, spec.Rule{Lhs: body, Rhs: rhs, Prec: -1})
	}
	nCtx := 2 + r.Intn(3)
	var ends []int
	for e := 0; e < 1+r.Intn(3); e++ {
		ends = append(ends, tok(fmt.Sprintf("Tend%d", e)))
	}
	stmt := S
	if r.Intn(2) == 0 {
		// a statement level below the start symbol with several terminators
		stmt = nt("Stmt")
		for _, e := range ends {
			g.Rules = append(g.Rules, spec.Rule{Lhs: S, Rhs: []spec.Sym{N(stmt), T(e)}, Prec: -1})
		}
		if r.Intn(2) == 0 {
			g.Rules = append(g.Rules, spec.Rule{Lhs: S, Rhs: []spec.Sym{N(S), N(stmt), T(ends[0])}, Prec: -1})
		}
	}
	for c := 0; c < nCtx; c++ {
		kw := tok(fmt.Sprintf("Tkw%d", c))
		rhs := []spec.Sym{T(kw), N(bodies[r.Intn(len(bodies))])}
		if stmt == S || r.Intn(2) == 0 {
			rhs = append(rhs, T(ends[r.Intn(len(ends))]))
		}
		g.Rules = append(g.Rules, spec.Rule{Lhs: stmt, Rhs: rhs, Prec: -1})
	}
	g.Start = S
	// rules were appended in construction order; move the start symbol's rules first sometimes
	if r.Intn(2) == 0 {
		var a, b []spec.Rule
		for _, ru := range g.Rules {
			if ru.Lhs == S || ru.Lhs == stmt {
				a = append(a, ru)
			} else {
				b = append(b, ru)
			}
		}
		g.Rules = append(a, b...)
	}
	g.DefaultActs()
	return g
}

// ---------------------------------------------------------------- G-tiny

// tinyRules lists every rule over nonterminals {S, A} and terminals {a, b}
// with a right-hand side of length <= 2 (42 rules).
func tinyRules() []spec.Rule {
	syms := []spec.Sym{{I: 0}, {I: 1}, {T: true, I: 0}, {T: true, I: 1}}
	var res []spec.Rule
	for lhs := 0; lhs < 2; lhs++ {
		res = append(res, spec.Rule{Lhs: lhs, Prec: -1})
		for _, x := range syms {
			res = append(res, spec.Rule{Lhs: lhs, Rhs: []spec.Sym{x}, Prec: -1})
		}
		for _, x := range syms {
			for _, y := range syms {
				res = append(res, spec.Rule{Lhs: lhs, Rhs: []spec.Sym{x, y}, Prec: -1})
			}
		}
	}
	return res
}

var tinyRuleList = tinyRules()

func binom(n, k int) int {
	if k < 0 || k > n {
		return 0
	}
	r := 1
	for i := 0; i < k; i++ {
		r = r * (n - i) / (i + 1)
	}
	return r
}

// TinyCount is the number of grammars in G-tiny: all sets of 1..4 of the 42 rules.
func TinyCount() int {
	n := len(tinyRuleList)
	return binom(n, 1) + binom(n, 2) + binom(n, 3) + binom(n, 4)
}

// Tiny returns the idx-th grammar of G-tiny (rule sets in lexicographic order,
// start symbol S). The grammar may be unusable.
func Tiny(idx int) *spec.Grammar {
	n := len(tinyRuleList)
	k := 1
	for idx >= binom(n, k) {
		idx -= binom(n, k)
		k++
	}
	// unrank the idx-th k-combination of n in lexicographic order
	var comb []int
	x := 0
	for j := 0; j < k; j++ {
		for {
			c := binom(n-x-1, k-j-1)
			if idx < c {
				break
			}
			idx -= c
			x++
		}
		comb = append(comb, x)
		x++
	}
	g := &spec.Grammar{
		Tokens: []spec.Token{{Name: "Ta", Decl: "token", Tag: "s"}, {Name: "Tb", Decl: "token", Tag: "s"}},
		NTs:    []spec.NT{{Name: "S", Tag: "s"}, {Name: "A", Tag: "s"}},
	}
	usesA := false
	for _, ci := range comb {
		ru := tinyRuleList[ci]
		g.Rules = append(g.Rules, spec.Rule{Lhs: ru.Lhs, Rhs: append([]spec.Sym{}, ru.Rhs...), Prec: -1})
		if ru.Lhs == 1 {
			usesA = true
		}
		for _, s := range ru.Rhs {
			if !s.T && s.I == 1 {
				usesA = true
			}
		}
	}
	if !usesA {
		g.NTs = g.NTs[:1]
	}
	g.DefaultActs()
	return g
}

// Rings produces grammars whose nonterminals refer to each other in a cycle
// (as expr -> term -> factor -> '(' expr ')' does), entered from several
// contexts with different terminators: the includes relation then has a
// strongly connected component with several members, each with its own
// contribution from outside.
func Rings(r *rand.Rand) *spec.Grammar {
	g := &spec.Grammar{}
	tok := func(name string) spec.Sym {
		g.Tokens = append(g.Tokens, spec.Token{Name: name, Decl: "token", Tag: "s"})
		return spec.Sym{T: true, I: len(g.Tokens) - 1}
	}
	g.NTs = append(g.NTs, spec.NT{Name: "S", Tag: "s"})
	k := 2 + r.Intn(4)
	ring := make([]int, k)
	for i := range ring {
		g.NTs = append(g.NTs, spec.NT{Name: fmt.Sprintf("R%d", i), Tag: "s"})
		ring[i] = len(g.NTs) - 1
	}
	// contexts: open Ri close, for a random subset (at least 2) of ring members
	nctx := 0
	for i := 0; i < k; i++ {
		if r.Intn(3) != 0 || nctx < 2 && i >= k-2 {
			open, cl := tok(fmt.Sprintf("To%d", i)), tok(fmt.Sprintf("Tc%d", i))
			g.Rules = append(g.Rules, spec.Rule{Lhs: 0, Rhs: []spec.Sym{open, {I: ring[i]}, cl}, Prec: -1})
			nctx++
		}
	}
	for i := 0; i < k; i++ {
		next := spec.Sym{I: ring[(i+1)%k]}
		step := tok(fmt.Sprintf("Ts%d", i))
		switch r.Intn(3) {
		case 0:
			g.Rules = append(g.Rules, spec.Rule{Lhs: ring[i], Rhs: []spec.Sym{step, next}, Prec: -1})
		case 1:
			g.Rules = append(g.Rules, spec.Rule{Lhs: ring[i], Rhs: []spec.Sym{step, step, next}, Prec: -1})
		default:
			// nullable tail after the ring reference
			g.NTs = append(g.NTs, spec.NT{Name: fmt.Sprintf("O%d", i), Tag: "s"})
			opt := len(g.NTs) - 1
			g.Rules = append(g.Rules, spec.Rule{Lhs: ring[i], Rhs: []spec.Sym{step, next, {I: opt}}, Prec: -1})
			g.Rules = append(g.Rules, spec.Rule{Lhs: opt, Prec: -1})
			if r.Intn(2) == 0 {
				g.Rules = append(g.Rules, spec.Rule{Lhs: opt, Rhs: []spec.Sym{tok(fmt.Sprintf("Tp%d", i))}, Prec: -1})
			}
		}
		if i == k-1 || r.Intn(3) == 0 {
			g.Rules = append(g.Rules, spec.Rule{Lhs: ring[i], Rhs: []spec.Sym{tok(fmt.Sprintf("Te%d", i))}, Prec: -1})
		}
	}
	g.DefaultActs()
	return g
}

// EscapeFamilies are grammars whose literals need escaping wherever yaccgo
// copies symbol names into generated code (trace strings, comments).
func EscapeFamilies() []*spec.Grammar {
	src := []string{
		"E: E '%' E | E '\"' E | '`' E | n",
		"%left '%'; %left '\"'; E: E '%' E | E '\"' E | '$' E | '{' E '}' | n",
		"S: '\\'' S '\\'' | '%' '%' | '<' S '>' | '!' | ",
		"L: L ',' I | I; I: '%' n | ':' n | '#' '{' L '}'",
	}
	var res []*spec.Grammar
	for _, s := range src {
		res = append(res, Parse(s))
	}
	return res
}

// Big produces a larger, conflict-free "statement language": keyword
// statements, blocks, argument lists and a layered expression grammar with
// several precedence levels written out as nonterminals. Typical size: 20-45
// tokens, 10-20 nonterminals, 30-70 rules, 60-200 LR(0) states.
func Big(r *rand.Rand) *spec.Grammar {
	g := &spec.Grammar{}
	tokN := 0
	tok := func(prefix string) spec.Sym {
		tokN++
		g.Tokens = append(g.Tokens, spec.Token{Name: fmt.Sprintf("%s%d", prefix, tokN), Decl: "token", Tag: "s"})
		return spec.Sym{T: true, I: len(g.Tokens) - 1}
	}
	nt := func(name string) int {
		g.NTs = append(g.NTs, spec.NT{Name: name, Tag: "s"})
		return len(g.NTs) - 1
	}
	N := func(i int) spec.Sym { return spec.Sym{I: i} }
	add := func(lhs int, rhs ...spec.Sym) {
		g.Rules = append(g.Rules, spec.Rule{Lhs: lhs, Rhs: rhs, Prec: -1})
	}
	prog, list, stmt, block, args := nt("Prog"), nt("StmtList"), nt("Stmt"), nt("Block"), nt("ArgList")
	levels := 2 + r.Intn(5)
	var ex []int
	for l := 0; l <= levels; l++ {
		ex = append(ex, nt(fmt.Sprintf("E%d", l)))
	}
	semi, lp, rp, lb, rb, comma, assign, id := tok("Tsemi"), tok("Tlp"), tok("Trp"), tok("Tlb"), tok("Trb"), tok("Tcomma"), tok("Tassign"), tok("Tid")
	add(prog, N(list))
	if r.Intn(2) == 0 {
		add(prog)
	}
	add(list, N(list), N(stmt))
	add(list, N(stmt))
	// statements
	nkw := 3 + r.Intn(6)
	for k := 0; k < nkw; k++ {
		kw := tok("Tkw")
		switch r.Intn(5) {
		case 0:
			add(stmt, kw, N(ex[0]), semi)
		case 1:
			add(stmt, kw, lp, N(args), rp, semi)
		case 2:
			add(stmt, kw, lp, N(ex[0]), rp, N(block))
		case 3:
			add(stmt, kw, N(block))
		default:
			add(stmt, kw, id, semi)
		}
	}
	add(stmt, id, assign, N(ex[0]), semi)
	add(stmt, N(block))
	add(block, lb, N(list), rb)
	add(block, lb, rb)
	add(args, N(args), comma, N(ex[0]))
	add(args, N(ex[0]))
	// layered expressions
	for l := 0; l < levels; l++ {
		nops := 1 + r.Intn(3)
		right := r.Intn(3) == 0
		for o := 0; o < nops; o++ {
			op := tok("Top")
			if right {
				add(ex[l], N(ex[l+1]), op, N(ex[l]))
			} else {
				add(ex[l], N(ex[l]), op, N(ex[l+1]))
			}
		}
		add(ex[l], N(ex[l+1]))
	}
	top := ex[levels]
	for u := 0; u < r.Intn(3); u++ {
		add(top, tok("Tun"), N(top))
	}
	add(top, lp, N(ex[0]), rp)
	add(top, id)
	for a := 0; a < 1+r.Intn(3); a++ {
		add(top, tok("Tlit"))
	}
	if r.Intn(2) == 0 {
		add(top, id, lp, N(args), rp)
		add(top, id, lp, rp)
	}
	g.Start = prog
	g.DefaultActs()
	return g
}

// LongRules produces grammars with 13-22 rules over a very small alphabet in
// which the first rules are 10-13 symbols long and the others are short and
// begin with symbols that also occur inside the long rules: states then hold
// items of many rules at many dot positions, including two-digit rule numbers
// and two-digit dots.
func LongRules(r *rand.Rand) *spec.Grammar {
	if r.Intn(2) == 0 {
		return longDistinct(r)
	}
	for {
		g := &spec.Grammar{}
		nT := 2 + r.Intn(3)
		nN := 2 + r.Intn(4)
		for i := 0; i < nT; i++ {
			g.Tokens = append(g.Tokens, spec.Token{Name: fmt.Sprintf("T%c", 'a'+i), Decl: "token", Tag: "s"})
		}
		for i := 0; i < nN; i++ {
			g.NTs = append(g.NTs, spec.NT{Name: fmt.Sprintf("N%c", 'A'+i), Tag: "s"})
		}
		sym := func() spec.Sym {
			if r.Intn(3) == 0 {
				return spec.Sym{I: r.Intn(nN)}
			}
			return spec.Sym{T: true, I: r.Intn(nT)}
		}
		nLong := 1 + r.Intn(2)
		for l := 0; l < nLong; l++ {
			ru := spec.Rule{Lhs: 0, Prec: -1}
			for j := 0; j < 10+r.Intn(4); j++ {
				ru.Rhs = append(ru.Rhs, sym())
			}
			g.Rules = append(g.Rules, ru)
		}
		for i := 0; i < nN; i++ {
			for a := 0; a < 3+r.Intn(3); a++ {
				ru := spec.Rule{Lhs: i, Prec: -1}
				for j := 0; j < 1+r.Intn(3); j++ {
					ru.Rhs = append(ru.Rhs, sym())
				}
				g.Rules = append(g.Rules, ru)
			}
		}
		g.DefaultActs()
		if Usable(g) {
			return g
		}
	}
}

// Huge produces "command table" grammars beyond the 8-bit sizes: 260-340
// productions and 260-500 LR(0) states over 20-50 tokens. Every command is a
// key of two or three tokens (all keys distinct, none a prefix of another),
// optionally followed by a small body nonterminal and a terminator. The
// grammars are LALR(1) by construction (the reference still checks).
func Huge(r *rand.Rand) *spec.Grammar {
	return HugeN(r, 256+r.Intn(80))
}

// HugeN is Huge with n productions (about 2.5 states per production).
func HugeN(r *rand.Rand, n int) *spec.Grammar {
	g := &spec.Grammar{}
	nT := 20 + r.Intn(31)
	for i := 0; i < nT; i++ {
		g.Tokens = append(g.Tokens, spec.Token{Name: fmt.Sprintf("K%02d", i), Decl: "token", Tag: "s"})
	}
	g.NTs = []spec.NT{{Name: "Prog", Tag: "s"}, {Name: "Cmd", Tag: "s"}, {Name: "BodyA", Tag: "s"}, {Name: "BodyB", Tag: "s"}}
	T := func(i int) spec.Sym { return spec.Sym{T: true, I: i} }
	N := func(i int) spec.Sym { return spec.Sym{I: i} }
	add := func(lhs int, rhs ...spec.Sym) {
		g.Rules = append(g.Rules, spec.Rule{Lhs: lhs, Rhs: rhs, Prec: -1})
	}
	add(0, N(1))
	add(0, N(0), N(1))
	// bodies use the first four tokens only; keys never start with them
	add(2, T(0))
	add(2, N(2), T(1))
	add(3, T(2), N(3))
	add(3, T(3))
	seen := map[[3]int]bool{}
	for len(g.Rules) < n {
		k := [3]int{4 + r.Intn(nT-4), 4 + r.Intn(nT-4), -1}
		three := r.Intn(3) != 0
		if three {
			k[2] = 4 + r.Intn(nT-4)
		}
		// prefix-freedom: a two-token key and a three-token key must not share the two tokens
		if seen[k] || seen[[3]int{k[0], k[1], -1}] || (!three && seen[[3]int{k[0], k[1], -2}]) {
			continue
		}
		seen[k] = true
		if three {
			seen[[3]int{k[0], k[1], -2}] = true // marks "some three-token key starts like this"
		}
		rhs := []spec.Sym{T(k[0]), T(k[1])}
		if three {
			rhs = append(rhs, T(k[2]))
		}
		switch r.Intn(4) {
		case 0:
			rhs = append(rhs, N(2), T(4+r.Intn(nT-4)))
		case 1:
			rhs = append(rhs, N(3))
		}
		add(1, rhs...)
	}
	g.DefaultActs()
	return g
}

// Optionals produces declaration-like grammars made of optional parts: nullable
// nonterminals, groups that are sequences of nullable nonterminals (nested one
// level), and items in which such groups follow nonterminals and precede
// terminals, inside a left-recursive list. States with several transitions on
// nullable nonterminals and long reads/includes chains are the point.
func Optionals(r *rand.Rand) *spec.Grammar {
	for try := 0; ; try++ {
		g := &spec.Grammar{}
		nT := 5 + r.Intn(5)
		for i := 0; i < nT; i++ {
			g.Tokens = append(g.Tokens, spec.Token{Name: fmt.Sprintf("T%c", 'a'+i), Decl: "token", Tag: "s"})
		}
		T := func(i int) spec.Sym { return spec.Sym{T: true, I: i} }
		N := func(i int) spec.Sym { return spec.Sym{I: i} }
		nt := func(name string) int {
			g.NTs = append(g.NTs, spec.NT{Name: name, Tag: "s"})
			return len(g.NTs) - 1
		}
		add := func(lhs int, rhs ...spec.Sym) {
			g.Rules = append(g.Rules, spec.Rule{Lhs: lhs, Rhs: rhs, Prec: -1})
		}
		body, list, item := nt("Body"), nt("List"), nt("Item")
		nOpt := 2 + r.Intn(4)
		var opts []int
		for i := 0; i < nOpt; i++ {
			o := nt(fmt.Sprintf("Opt%c", 'A'+i))
			opts = append(opts, o)
		}
		nGrp := 1 + r.Intn(3)
		var grps []int
		for i := 0; i < nGrp; i++ {
			grps = append(grps, nt(fmt.Sprintf("Grp%c", 'A'+i)))
		}
		open, close := T(0), T(1)
		if r.Intn(2) == 0 {
			add(body, open, N(list), close)
		} else {
			add(body, N(list))
		}
		add(list)
		add(list, N(list), N(item))
		for i, o := range opts {
			add(o)
			if r.Intn(4) == 0 && i > 0 {
				add(o, T(2+r.Intn(nT-2)), N(opts[r.Intn(i)]))
			} else {
				add(o, T(2+r.Intn(nT-2)))
			}
		}
		for i, gr := range grps {
			var rhs []spec.Sym
			for k := 0; k < 2+r.Intn(2); k++ {
				if i > 0 && r.Intn(3) == 0 {
					rhs = append(rhs, N(grps[r.Intn(i)]))
				} else {
					rhs = append(rhs, N(opts[r.Intn(len(opts))]))
				}
			}
			add(gr, rhs...)
		}
		for a := 0; a < 1+r.Intn(3); a++ {
			var rhs []spec.Sym
			for k := 0; k < 1+r.Intn(3); k++ {
				switch r.Intn(3) {
				case 0:
					rhs = append(rhs, N(opts[r.Intn(len(opts))]))
				default:
					rhs = append(rhs, N(grps[r.Intn(len(grps))]))
				}
			}
			rhs = append(rhs, T(2+r.Intn(nT-2)))
			if r.Intn(2) == 0 {
				rhs = append(rhs, N(opts[r.Intn(len(opts))]), T(2+r.Intn(nT-2)))
			}
			add(item, rhs...)
		}
		g.DefaultActs()
		if Usable(g) {
			return g
		}
	}
}

// Aliases produces grammars in which several nonterminals are defined by the
// same right-hand side (unit rules over one base nonterminal, or identical
// token sequences) and are told apart only by the token that follows them:
// one reduction is looked back to from several transitions of one state, with
// a different follow set each.
func Aliases(r *rand.Rand) *spec.Grammar {
	for {
		g := &spec.Grammar{}
		k := 2 + r.Intn(3)
		nT := k + 3 + r.Intn(3)
		for i := 0; i < nT; i++ {
			g.Tokens = append(g.Tokens, spec.Token{Name: fmt.Sprintf("T%c", 'a'+i), Decl: "token", Tag: "s"})
		}
		T := func(i int) spec.Sym { return spec.Sym{T: true, I: i} }
		N := func(i int) spec.Sym { return spec.Sym{I: i} }
		nt := func(name string) int {
			g.NTs = append(g.NTs, spec.NT{Name: name, Tag: "s"})
			return len(g.NTs) - 1
		}
		add := func(lhs int, rhs ...spec.Sym) {
			g.Rules = append(g.Rules, spec.Rule{Lhs: lhs, Rhs: rhs, Prec: -1})
		}
		prog, stmt, base := nt("Prog"), nt("Stmt"), nt("Base")
		var ali []int
		for i := 0; i < k; i++ {
			ali = append(ali, nt(fmt.Sprintf("Ali%c", 'A'+i)))
		}
		opt := nt("OptTail")
		id := T(nT - 1)
		end := T(nT - 2)
		// rule order matters for such defects: statements first or aliases first
		stmts := func() {
			for i, a := range ali {
				rhs := []spec.Sym{N(a), T(i)}
				switch r.Intn(3) {
				case 0:
					rhs = append(rhs, N(opt))
				case 1:
					rhs = append(rhs, N(ali[r.Intn(len(ali))]), N(opt))
				}
				rhs = append(rhs, end)
				add(stmt, rhs...)
			}
		}
		aliases := func() {
			for _, a := range ali {
				if r.Intn(4) == 0 {
					add(a, id) // the same token sequence instead of the unit rule
				} else {
					add(a, N(base))
				}
			}
		}
		add(prog, N(stmt))
		add(prog, N(prog), N(stmt))
		if r.Intn(2) == 0 {
			stmts()
			aliases()
		} else {
			aliases()
			stmts()
		}
		add(base, id)
		if r.Intn(2) == 0 {
			add(base, N(base), T(nT-3), id)
		}
		add(opt)
		add(opt, T(nT-3), id)
		g.DefaultActs()
		if Usable(g) {
			return g
		}
	}
}

// Ladder produces deep dependency chains: 40-300 nonterminals, each of which
// becomes productive (and gets its FIRST set) only through the next one. The
// rules are written top-down, bottom-up or shuffled, so that fixpoint
// computations need as many rounds as the chain is long.
func Ladder(r *rand.Rand) *spec.Grammar {
	g := &spec.Grammar{}
	nT := 2 + r.Intn(6)
	for i := 0; i < nT; i++ {
		g.Tokens = append(g.Tokens, spec.Token{Name: fmt.Sprintf("T%c", 'a'+i), Decl: "token", Tag: "s"})
	}
	depth := 40 + r.Intn(60)
	switch r.Intn(3) {
	case 0:
		depth = 60 + r.Intn(12) // around 64
	case 1:
		depth = 120 + r.Intn(180) // around 128 and 256
	}
	for i := 0; i <= depth; i++ {
		g.NTs = append(g.NTs, spec.NT{Name: fmt.Sprintf("L%03d", i), Tag: "s"})
	}
	T := func(i int) spec.Sym { return spec.Sym{T: true, I: i} }
	var groups [][]spec.Rule
	for i := 0; i < depth; i++ {
		var gr []spec.Rule
		next := spec.Sym{I: i + 1}
		switch r.Intn(6) {
		case 0: // a token in front (LL(1) together with the unit rule only if it is not in FIRST(next): use one alternative)
			gr = append(gr, spec.Rule{Lhs: i, Rhs: []spec.Sym{T(r.Intn(nT)), next}, Prec: -1})
		case 1: // a token behind
			gr = append(gr, spec.Rule{Lhs: i, Rhs: []spec.Sym{next, T(r.Intn(nT))}, Prec: -1})
		default:
			gr = append(gr, spec.Rule{Lhs: i, Rhs: []spec.Sym{next}, Prec: -1})
		}
		groups = append(groups, gr)
	}
	groups = append(groups, []spec.Rule{{Lhs: depth, Rhs: []spec.Sym{T(r.Intn(nT))}, Prec: -1}})
	switch r.Intn(3) {
	case 1: // bottom-up
		for i, j := 0, len(groups)-1; i < j; i, j = i+1, j-1 {
			groups[i], groups[j] = groups[j], groups[i]
		}
	case 2:
		r.Shuffle(len(groups), func(i, j int) { groups[i], groups[j] = groups[j], groups[i] })
	}
	for _, gr := range groups {
		g.Rules = append(g.Rules, gr...)
	}
	g.DefaultActs()
	return g
}

// longDistinct: one or two early rules of 11-14 mostly distinct terminals and a
// dozen or more short rules that each start with a terminal of their own, so
// that many LR(0) states are single items whose rule index and dot position
// both reach two digits.
func longDistinct(r *rand.Rand) *spec.Grammar {
	for {
		g := &spec.Grammar{}
		nT := 14 + r.Intn(9)
		nN := 2 + r.Intn(3)
		for i := 0; i < nT; i++ {
			g.Tokens = append(g.Tokens, spec.Token{Name: fmt.Sprintf("T%c", 'a'+i), Decl: "token", Tag: "s"})
		}
		for i := 0; i < nN; i++ {
			g.NTs = append(g.NTs, spec.NT{Name: fmt.Sprintf("N%c", 'A'+i), Tag: "s"})
		}
		T := func(i int) spec.Sym { return spec.Sym{T: true, I: i} }
		// short rules first or long rules first
		var long, short []spec.Rule
		nLong := 1 + r.Intn(2)
		for l := 0; l < nLong; l++ {
			ru := spec.Rule{Lhs: 0, Prec: -1}
			perm := r.Perm(nT)
			n := 11 + r.Intn(4)
			for j := 0; j < n && j < nT; j++ {
				if j > 0 && r.Intn(9) == 0 {
					ru.Rhs = append(ru.Rhs, spec.Sym{I: 1 + r.Intn(nN-1)})
				} else {
					ru.Rhs = append(ru.Rhs, T(perm[j]))
				}
			}
			long = append(long, ru)
		}
		first := r.Perm(nT)
		nShort := 10 + r.Intn(14)
		for k := 0; k < nShort; k++ {
			lhs := k % nN
			if k >= nN {
				lhs = r.Intn(nN)
			}
			ru := spec.Rule{Lhs: lhs, Prec: -1, Rhs: []spec.Sym{T(first[k%nT])}}
			for j := 0; j < r.Intn(3); j++ {
				if r.Intn(4) == 0 {
					ru.Rhs = append(ru.Rhs, spec.Sym{I: r.Intn(nN)})
				} else {
					ru.Rhs = append(ru.Rhs, T(r.Intn(nT)))
				}
			}
			short = append(short, ru)
		}
		// the long rules sit among the first nine rules of the file
		at := r.Intn(8)
		if at > len(short) {
			at = len(short)
		}
		g.Rules = append(g.Rules, short[:at]...)
		g.Rules = append(g.Rules, long...)
		g.Rules = append(g.Rules, short[at:]...)
		// rules of one nonterminal need not be adjacent (the renderer writes one group per run)
		g.DefaultActs()
		if Usable(g) {
			return g
		}
	}
}

// ManyTokens produces keyword-heavy grammars with 64-100 terminals (symbol
// ids beyond 64): many statement forms "keyword body terminator" sharing a few
// body nonterminals, so that reductions are looked back to from many contexts
// and their lookahead sets contain terminals with high ids.
func ManyTokens(r *rand.Rand) *spec.Grammar {
	g := &spec.Grammar{}
	n := 64 + r.Intn(37)
	for i := 0; i < n; i++ {
		g.Tokens = append(g.Tokens, spec.Token{Name: fmt.Sprintf("T%02d", i), Decl: "token", Tag: "s"})
	}
	g.NTs = []spec.NT{{Name: "S", Tag: "s"}, {Name: "A", Tag: "s"}, {Name: "B", Tag: "s"}}
	T := func(i int) spec.Sym { return spec.Sym{T: true, I: i} }
	bodyTok := r.Intn(8)
	g.Rules = append(g.Rules, spec.Rule{Lhs: 1, Rhs: []spec.Sym{T(bodyTok)}, Prec: -1})
	g.Rules = append(g.Rules, spec.Rule{Lhs: 2, Rhs: []spec.Sym{{I: 1}}, Prec: -1})
	if r.Intn(2) == 0 {
		g.Rules = append(g.Rules, spec.Rule{Lhs: 2, Rhs: []spec.Sym{{I: 2}, T(8 + r.Intn(4)), {I: 1}}, Prec: -1})
	}
	// statement forms: keyword (low or high id) + body + terminator (often a high id)
	nforms := 6 + r.Intn(20)
	used := map[int]bool{bodyTok: true}
	pick := func(lo, hi int) int {
		for {
			t := lo + r.Intn(hi-lo)
			if !used[t] {
				used[t] = true
				return t
			}
		}
	}
	for f := 0; f < nforms; f++ {
		kw := pick(12, n)
		var end int
		if r.Intn(3) == 0 {
			end = 12 + r.Intn(n-12) // terminators may repeat across forms
		} else {
			end = n - 1 - r.Intn(8)
		}
		body := spec.Sym{I: 1 + r.Intn(2)}
		switch r.Intn(3) {
		case 0:
			g.Rules = append(g.Rules, spec.Rule{Lhs: 0, Rhs: []spec.Sym{T(kw), body, T(end)}, Prec: -1})
		case 1:
			g.Rules = append(g.Rules, spec.Rule{Lhs: 0, Rhs: []spec.Sym{body, T(kw), T(end)}, Prec: -1})
		default:
			g.Rules = append(g.Rules, spec.Rule{Lhs: 0, Rhs: []spec.Sym{T(kw), T(pick(12, n)), body, T(end)}, Prec: -1})
		}
	}
	// the remaining tokens appear in one catch-all rule so that every token is used
	for t := 0; t < n; t++ {
		if !used[t] && r.Intn(3) == 0 {
			used[t] = true
			g.Rules = append(g.Rules, spec.Rule{Lhs: 0, Rhs: []spec.Sym{T(t), T(n - 1 - r.Intn(4))}, Prec: -1})
		}
	}
	g.DefaultActs()
	return g
}

// Dense produces a conflict-free grammar whose table is dense rather than big:
// M keyword-introduced lists over the same N item tokens,
//
//	S : K1 A1 | ... | KM AM ;  Ai : Ai item | item ;  item : T1 | ... | TN
//
// About 3M+N states with N+1 occupied cells in most rows: with M, N around 50 the
// packed action vector of the generated parser is one source line of more than 64 KiB.
func Dense(r *rand.Rand) *spec.Grammar {
	g := &spec.Grammar{}
	m := 48 + r.Intn(10)
	n := 48 + r.Intn(10)
	for i := 0; i < m; i++ {
		g.Tokens = append(g.Tokens, spec.Token{Name: fmt.Sprintf("K%02d", i), Decl: "token"})
	}
	for i := 0; i < n; i++ {
		g.Tokens = append(g.Tokens, spec.Token{Name: fmt.Sprintf("T%02d", i), Decl: "token", Tag: "s"})
	}
	g.NTs = []spec.NT{{Name: "S", Tag: "s"}, {Name: "item", Tag: "s"}}
	for i := 0; i < m; i++ {
		g.NTs = append(g.NTs, spec.NT{Name: fmt.Sprintf("A%02d", i), Tag: "s"})
	}
	for i := 0; i < m; i++ {
		g.Rules = append(g.Rules, spec.Rule{Lhs: 0, Rhs: []spec.Sym{{T: true, I: i}, {I: 2 + i}}, Prec: -1})
	}
	for i := 0; i < m; i++ {
		g.Rules = append(g.Rules, spec.Rule{Lhs: 2 + i, Rhs: []spec.Sym{{I: 2 + i}, {I: 1}}, Prec: -1},
			spec.Rule{Lhs: 2 + i, Rhs: []spec.Sym{{I: 1}}, Prec: -1})
	}
	for i := 0; i < n; i++ {
		g.Rules = append(g.Rules, spec.Rule{Lhs: 1, Rhs: []spec.Sym{{T: true, I: m + i}}, Prec: -1})
	}
	g.Start = 0
	g.DefaultActs()
	return g
}
