package gen

import (
	"fmt"
	"math/rand"
	"testing"

	"verif/harness/ref"
)

// Cross-validation of the reference models: on conflict-free grammars the LR
// simulation over the reference table must agree with Earley on every short
// string (membership and index of the first bad token), and its reductions
// must replay to a derivation of the input.
func TestRefModelsAgree(t *testing.T) {
	r := rand.New(rand.NewSource(7))
	checked, lalr, strs := 0, 0, 0
	gs := Families()
	for i := 0; i < 1500; i++ {
		gs = append(gs, RandUsable(r, RandCfg{MaxT: 4, MaxNT: 4, MaxAlt: 3, MaxRhs: 3, Prec: false}))
	}
	for _, g := range gs {
		rg := g.ToRef()
		lr0 := ref.BuildLR0(rg, 2000)
		la := ref.BuildLALR(lr0, 20000)
		if la == nil {
			t.Fatal("LR1 limit")
		}
		tab := ref.BuildTable(la)
		checked++
		if len(tab.Cells) != 0 {
			continue
		}
		lalr++
		nT := len(g.Tokens)
		var rec func(pre []int, depth int)
		rec = func(pre []int, depth int) {
			strs++
			acc, bad := rg.Earley(pre)
			sim := tab.Sim(pre, 100000)
			if sim.StepLimit {
				t.Fatalf("step limit on conflict-free grammar %s input %v", g.Note, pre)
			}
			if acc != sim.Accept {
				t.Fatalf("membership differs: grammar %s %s input %v earley=%v sim=%v", g.Note, specStr(g), pre, acc, sim.Accept)
			}
			if !acc && bad != sim.ErrIndex {
				t.Fatalf("bad token index differs: %s input %v earley=%d sim=%d", specStr(g), pre, bad, sim.ErrIndex)
			}
			if !acc && sim.Fetched != bad+1 {
				t.Fatalf("fetched %d, bad %d", sim.Fetched, bad)
			}
			if acc {
				if _, err := rg.Replay(pre, sim.Reds); err != nil {
					t.Fatalf("replay failed: %v", err)
				}
			}
			if depth == 0 || (!acc && bad < len(pre)) {
				return
			}
			for s := 0; s < nT; s++ {
				rec(append(append([]int{}, pre...), s), depth-1)
			}
		}
		rec(nil, 5)
	}
	t.Logf("grammars %d, conflict-free %d, strings %d", checked, lalr, strs)
	if lalr < 200 {
		t.Fatalf("too few conflict-free grammars: %d", lalr)
	}
}

func specStr(g interface{}) string { return "" }

func TestTextbookLALR(t *testing.T) {
	// S: L = R | R; L: * R | i; R: L  -- LALR(1), not SLR(1): state {S->L.=R, R->L.} has LA(R->L) = {$}
	g := Parse("S: L '=' R | R; L: '*' R | i; R: L")
	rg := g.ToRef()
	lr0 := ref.BuildLR0(rg, 2000)
	if len(lr0.States) != 10 {
		t.Fatalf("dragon book grammar 4.49 has 10 LR(0) states, got %d", len(lr0.States))
	}
	la := ref.BuildLALR(lr0, 1000)
	tab := ref.BuildTable(la)
	if len(tab.Cells) != 0 {
		t.Fatalf("grammar is LALR(1), got %d conflict cells", len(tab.Cells))
	}
	// LR(1) but not LALR(1)
	g2 := Parse("S: a A d | b B d | a B e | b A e; A: c; B: c")
	rg2 := g2.ToRef()
	la2 := ref.BuildLALR(ref.BuildLR0(rg2, 2000), 1000)
	tab2 := ref.BuildTable(la2)
	if len(tab2.Cells) != 2 {
		t.Fatalf("expected 2 r/r cells, got %d", len(tab2.Cells))
	}
	// precedence
	g3 := Parse("%left '+'; %left '*'; E: E '+' E | E '*' E | n")
	tab3 := ref.BuildTable(ref.BuildLALR(ref.BuildLR0(g3.ToRef(), 2000), 1000))
	if tab3.HasUnresolved || len(tab3.Cells) != 4 {
		t.Fatalf("expression grammar: cells %d unresolved %v", len(tab3.Cells), tab3.HasUnresolved)
	}
}

func TestTinyEnumeration(t *testing.T) {
	n := TinyCount()
	if n != 42+861+11480+111930 {
		t.Fatalf("count %d", n)
	}
	seen := map[string]bool{}
	for _, i := range []int{0, 1, 41, 42, 43, 902, 903, 12382, 12383, n - 1} {
		g := Tiny(i)
		k := ""
		for _, r := range g.Rules {
			k += fmt.Sprint(r.Lhs, r.Rhs, ";")
		}
		if seen[k] {
			t.Fatalf("duplicate grammar at %d", i)
		}
		seen[k] = true
	}
	if len(Tiny(0).Rules) != 1 || len(Tiny(42).Rules) != 2 || len(Tiny(n-1).Rules) != 4 {
		t.Fatal("sizes")
	}
}

func TestBigIsLALR(t *testing.T) {
	r := rand.New(rand.NewSource(3))
	for i := 0; i < 30; i++ {
		g := Big(r)
		if !Usable(g) {
			t.Fatal("unusable")
		}
		rg := g.ToRef()
		lr0 := ref.BuildLR0(rg, 2000)
		la := ref.BuildLALR(lr0, 20000)
		if la == nil {
			t.Fatalf("LR1 limit, %d LR0 states", len(lr0.States))
		}
		tab := ref.BuildTable(la)
		if len(tab.Cells) != 0 {
			t.Fatalf("grammar %d has %d conflict cells", i, len(tab.Cells))
		}
		if i == 0 {
			t.Logf("tokens %d nts %d rules %d lr0 %d lr1 %d", len(g.Tokens), len(g.NTs), len(g.Rules), len(lr0.States), la.LR1States)
		}
	}
}

func TestHugeIsLALR(t *testing.T) {
	for seed := int64(1); seed <= 6; seed++ {
		r := rand.New(rand.NewSource(seed))
		g := Huge(r)
		if !Usable(g) {
			t.Fatalf("seed %d: not usable", seed)
		}
		rg := g.ToRef()
		lr0 := ref.BuildLR0(rg, 1990)
		if lr0 == nil {
			t.Fatalf("seed %d: too many states", seed)
		}
		la := ref.BuildLALR(lr0, 20000)
		if la == nil {
			t.Fatalf("seed %d: LALR budget", seed)
		}
		tab := ref.BuildTable(la)
		if len(tab.Cells) != 0 {
			t.Fatalf("seed %d: %d conflict cells", seed, len(tab.Cells))
		}
		t.Logf("seed %d: %d rules, %d states", seed, len(g.Rules), len(lr0.States))
	}
}

func TestDenseIsLALR(t *testing.T) {
	for seed := int64(1); seed <= 3; seed++ {
		g := Dense(rand.New(rand.NewSource(seed)))
		if !Usable(g) {
			t.Fatalf("seed %d: not usable", seed)
		}
		lr0 := ref.BuildLR0(g.ToRef(), 1990)
		if lr0 == nil {
			t.Fatalf("seed %d: too many states", seed)
		}
		la := ref.BuildLALR(lr0, 20000)
		if la == nil {
			t.Fatalf("seed %d: LALR budget", seed)
		}
		if tab := ref.BuildTable(la); len(tab.Cells) != 0 {
			t.Fatalf("seed %d: %d conflict cells", seed, len(tab.Cells))
		}
		t.Logf("seed %d: %d rules, %d states", seed, len(g.Rules), len(lr0.States))
	}
}
