package pipe

// goDriver is the text of driver.go compiled next to each generated Go parser.
// Placeholders: @PKG@ package name, @CODES@ token code expressions, @SETVAL@
// statements that set the value fields of token k, @STARTVAL@ expression that
// renders the start value of `v *ValType` as a string, @OBJ@ "true" for -o
// parsers, @BADCODE@ a token code the grammar does not declare.
const goDriverCommon = `package @PKG@

import (
	"encoding/json"
	"fmt"
	"os"
	"runtime"
	"strconv"
	"strings"
	"sync"
	"sync/atomic"
)

var _ = strconv.Itoa
var _ = strings.Join
var _ = runtime.Gosched
var _ sync.Mutex
var _ = atomic.AddInt64

var verifCodes = []int{@CODES@}

// verifTagged[k]: token k carries a value
var verifTagged = []bool{@TAGGED@}

const verifBadCode = @BADCODE@

// verifBadCodes: token codes the grammar does not declare - the far one, the
// ones just above the largest declared code (where a generator might number
// its nonterminals), and the smallest free ones
var verifBadCodes = func() []int {
	decl := map[int]bool{}
	decl[@EOFCODE@] = true
	decl[-1] = true
	max := 0
	for _, c := range verifCodes {
		decl[c] = true
		if c > max {
			max = c
		}
	}
	out := []int{verifBadCode}
	for c := max + 1; c <= max+@NNT@+4; c++ {
		out = append(out, c)
	}
	n := 0
	for c := 0; c < 400 && n < 3; c++ {
		if !decl[c] {
			out = append(out, c)
			n++
		}
	}
	return out
}()

// --- per-parse recording (sequential modes only)
var verifLog []int
var verifFetchLog []int
var verifFetched int
var verifStepLimit = 1 << 30
var verifConcurrent int32 // when set, nothing shared is written
var verifYield int32      // inject scheduling points in GetToken/actions
var verifNested func(at int) // called from GetToken at token index at (nesting monitor)
var verifWatchCell bool      // c15 mode: watch the value cell handed to the lexer at the first token of a parse
var verifDirty bool

func verifR(k int) {
	if atomic.LoadInt32(&verifYield) != 0 {
		runtime.Gosched()
	}
	if atomic.LoadInt32(&verifConcurrent) != 0 {
		return
	}
	if verifNested != nil {
		// nesting monitor: a complete parse may run inside the action of reduction number len(verifLog)
		verifNested(-(len(verifLog) + 1))
	}
	verifLog = append(verifLog, k)
	verifFetchLog = append(verifFetchLog, verifFetched)
	if len(verifLog) > verifStepLimit {
		panic("VERIF-STEP-LIMIT")
	}
}

func verifI(n int) string { return strconv.Itoa(n) }
func verifL(s string) int {
	h := 0
	for i := 0; i < len(s); i++ {
		h = (h*31 + int(s[i])) % 10007
	}
	return h
}

func verifGetToken(input string, val *ValType, pos *int) int {
	if atomic.LoadInt32(&verifYield) != 0 {
		runtime.Gosched()
	}
	conc := atomic.LoadInt32(&verifConcurrent) != 0
	if !conc {
		if verifFetched == 0 && *val != (ValType{}) {
			// a lexer that accumulates into the cell would see what an earlier parse left there
			verifDirty = true
		}
		verifFetched++
		if verifNested != nil {
			verifNested(*pos)
		}
	}
	if *pos >= len(input) {
		*pos++
		return @EOFCODE@
	}
	c := input[*pos]
	p := *pos
	*pos++
	if c == '?' {
		return verifBadCodes[(p*31+len(input)*7)%len(verifBadCodes)]
	}
	k := int(c) - 64
	if !verifTagged[k] && p%2 == 1 {
		// a token without value: this lexer leaves the value cell as it is (it still holds the
		// previous token's value) for every second such token
		return verifCodes[k]
	}
	*val = ValType{s: "!", t: "!", n: -9999, m: -9999, st: "!", nm: -9999}
	sv := string(rune('a'+k%26)) + "@" + strconv.Itoa(p)
	nv := (7*p + k + 1) % 10007
	_, _ = sv, nv
	switch k {
@SETVAL@
	}
	return verifCodes[k]
}

type VerifResult struct {
	Verdict string ` + "`json:\"verdict\"`" + `
	Msg     string ` + "`json:\"msg,omitempty\"`" + `
	Log     []int  ` + "`json:\"log\"`" + `
	Fetch   []int  ` + "`json:\"fetch\"`" + `
	Fetched int    ` + "`json:\"fetched\"`" + `
	Value   string ` + "`json:\"value\"`" + `
}

func verifStartVal(v *ValType) string {
	if v == nil {
		return "<nil>"
	}
	return @STARTVAL@
}

type VerifTable struct {
	NStates   int            ` + "`json:\"nstates\"`" + `
	Names     []string       ` + "`json:\"names\"`" + `
	Rows      [][]int        ` + "`json:\"rows\"`" + `
	Translate map[string]int ` + "`json:\"translate\"`" + `
	Err       string         ` + "`json:\"err,omitempty\"`" + `
	ErrorCode int            ` + "`json:\"error_code\"`" + `
	AcceptCode int           ` + "`json:\"accept_code\"`" + `
}

// VerifDumpTable dumps the automaton as the generated lookup code implements it.
func VerifDumpTable(probe []int) (t VerifTable) {
	defer func() {
		if e := recover(); e != nil {
			t.Err = fmt.Sprint(e)
		}
	}()
	t.ErrorCode, t.AcceptCode = ERROR_ACTION, ACCEPT_ACTION
	t.NStates = ERROR_ACTION - 100
	for a := 0; a < 4096; a++ {
		n := TraceTranslate(a)
		if n == "" {
			break
		}
		t.Names = append(t.Names, n)
	}
	for s := 0; s < t.NStates; s++ {
		row := make([]int, len(t.Names))
		for a := range t.Names {
			row[a] = (&StateSym{Yystate: s}).Action(a)
		}
		t.Rows = append(t.Rows, row)
	}
	t.Translate = map[string]int{}
	for _, c := range probe {
		t.Translate[strconv.Itoa(c)] = translate(c)
	}
	return t
}

type VerifRequest struct {
	Mode      string   ` + "`json:\"mode\"`" + `
	Cases     []string ` + "`json:\"cases\"`" + `
	StepLimit int      ` + "`json:\"step_limit\"`" + `
	Trace     bool     ` + "`json:\"trace\"`" + `
	Probe     []int    ` + "`json:\"probe\"`" + `
	Orders    [][]int  ` + "`json:\"orders\"`" + `
	Workers   int      ` + "`json:\"workers\"`" + `
	Rounds    int      ` + "`json:\"rounds\"`" + `
	Orig      []int    ` + "`json:\"orig,omitempty\"`" + ` // concurrent leg: position of each case in the full case list
}

type VerifResponse struct {
	Results [][]VerifResult ` + "`json:\"results\"`" + ` // one list per order / mode leg
	Table   *VerifTable     ` + "`json:\"table,omitempty\"`" + `
	Notes   []string        ` + "`json:\"notes,omitempty\"`" + `
}

func verifClassify(e interface{}) (string, string) {
	msg := fmt.Sprint(e)
	if _, ok := e.(runtime.Error); ok {
		return "crash", "runtime error: " + msg
	}
	if msg == "VERIF-STEP-LIMIT" {
		return "steplimit", ""
	}
	if strings.HasPrefix(msg, "Grammar error") {
		return "error", msg
	}
	return "crash", msg
}

// VerifMain is called by the batch binary: prog <pkg> <request.json> <response.json>
func VerifMain(reqPath, respPath string) {
	b, err := os.ReadFile(reqPath)
	if err != nil {
		panic(err)
	}
	var req VerifRequest
	if err := json.Unmarshal(b, &req); err != nil {
		panic(err)
	}
	if req.StepLimit > 0 {
		verifStepLimit = req.StepLimit
	}
	IsTrace = req.Trace
	var resp VerifResponse
	if req.Probe != nil {
		t := VerifDumpTable(req.Probe)
		resp.Table = &t
	}
	verifWatchCell = req.Mode == "c15"
	verifModes(&req, &resp)
	ob, _ := json.Marshal(resp)
	if err := os.WriteFile(respPath, ob, 0644); err != nil {
		panic(err)
	}
}

// c17 mode: traced parses with a complete traced inner parse inside the action of a reduction. The lines
// of the inner parse are bracketed by @@NEST-BEGIN / @@NEST-END, so the outer trace can be read around
// them. Results: one list of 3 entries per case (inner parse inside the first, the middle and the last
// reduction); entries that were not run have an empty verdict. The trace of entry j of case k is
// delimited as case number len(cases) + 3*k + j.
func verifTraceNest(req *VerifRequest, resp *VerifResponse, run func(k int, in string) VerifResult, inner func(in string)) {
	base := resp.Results[0]
	n := len(req.Cases)
	out := make([]VerifResult, 3*n)
	for k := range req.Cases {
		L := len(base[k].Log)
		if base[k].Verdict == "steplimit" || base[k].Verdict == "crash" || L == 0 {
			continue
		}
		ok := -1
		for d := 1; d <= n; d++ {
			if c := (k + d) % n; base[c].Verdict != "steplimit" && base[c].Verdict != "crash" {
				ok = c
				break
			}
		}
		if ok < 0 {
			continue
		}
		other := req.Cases[ok]
		ats := []int{1, (L + 1) / 2, L}
		for j, a := range ats {
			if j > 0 && a == ats[j-1] {
				continue
			}
			at := -a
			fired := false
			verifNested = func(pos int) {
				if pos != at || fired {
					return
				}
				fired = true
				sl, sf, sn := verifLog, verifFetchLog, verifFetched
				hook := verifNested
				verifNested = nil
				atomic.StoreInt32(&verifConcurrent, 1)
				fmt.Println("@@NEST-BEGIN")
				func() {
					defer func() { recover() }()
					inner(other)
				}()
				fmt.Println("@@NEST-END")
				atomic.StoreInt32(&verifConcurrent, 0)
				verifNested = hook
				verifLog, verifFetchLog, verifFetched = sl, sf, sn
			}
			r := run(n+3*k+j, req.Cases[k])
			verifNested = nil
			if !fired {
				r = VerifResult{}
			}
			out[3*k+j] = r
		}
	}
	resp.Results = append(resp.Results, out)
	resp.Notes = append(resp.Notes, "tracenest:1")
}

func verifBegin(k int) {
	verifLog, verifFetchLog, verifFetched = nil, nil, 0
	verifDirty = false
	if IsTrace {
		fmt.Printf("@@BEGIN %d\n", k)
	}
}
func verifEnd(k int) {
	if IsTrace {
		fmt.Printf("@@END %d\n", k)
	}
}
`

// global-state parsers
const goDriverGlobal = `
func verifParseOnce(k int, in string) (res VerifResult) {
	verifBegin(k)
	defer func() {
		if e := recover(); e != nil {
			res.Verdict, res.Msg = verifClassify(e)
		}
		res.Log, res.Fetch, res.Fetched = verifLog, verifFetchLog, verifFetched
		if verifWatchCell && verifDirty {
			res.Verdict = "first-value-cell-not-fresh:" + res.Verdict
		}
		if res.Log == nil {
			res.Log = []int{}
		}
		verifEnd(k)
	}()
	ParserInit()
	v := Parser(in)
	res.Verdict = "accept"
	if v == nil {
		res.Verdict = "nilresult"
	}
	res.Value = verifStartVal(v)
	return res
}

func verifModes(req *VerifRequest, resp *VerifResponse) {
	orders := req.Orders
	if len(orders) == 0 {
		o := make([]int, len(req.Cases))
		for i := range o {
			o[i] = i
		}
		orders = [][]int{o}
	}
	for _, ord := range orders {
		out := make([]VerifResult, len(req.Cases))
		for _, k := range ord {
			out[k] = verifParseOnce(k, req.Cases[k])
		}
		resp.Results = append(resp.Results, out)
	}
	resp.Notes = append(resp.Notes, "orders:"+strconv.Itoa(len(orders)))
	if req.Mode == "c17" {
		verifTraceNest(req, resp, verifParseOnce, func(in string) {
			PushContex()
			defer PopContex()
			ParserInit()
			Parser(in)
		})
		return
	}
	if req.Mode != "c15" {
		return
	}
	// nested parses in the global form: the generated PushContex()/PopContex() pair saves and restores
	// the parser state, so a complete inner parse may run while an outer one is suspended in GetToken
	base := resp.Results[0]
	out := make([]VerifResult, len(req.Cases))
	inner := make([]VerifResult, 0)
	for k := range req.Cases {
		// positions of the inner parse: inside GetToken at every token index (at >= 0), then inside
		// the action of each of the first reductions (at = -1, -2, ...)
		ats := []int{}
		for at := 0; at <= len(req.Cases[k]); at++ {
			ats = append(ats, at)
		}
		for j := 1; j <= len(base[k].Log) && j <= 12; j++ {
			ats = append(ats, -j)
		}
		for _, at := range ats {
			// the inner parse runs without step limit: take the next case that terminates when run alone
			ok := -1
			for d := 1; d <= len(req.Cases); d++ {
				if c := (k + d) % len(req.Cases); base[c].Verdict != "steplimit" {
					ok = c
					break
				}
			}
			if ok < 0 {
				break
			}
			other := req.Cases[ok]
			var innerRes VerifResult
			fired := false
			verifNested = func(pos int) {
				if pos != at || fired {
					return
				}
				fired = true
				sl, sf, sn := verifLog, verifFetchLog, verifFetched
				hook := verifNested
				verifNested = nil
				atomic.StoreInt32(&verifConcurrent, 1)
				PushContex()
				func() {
					defer func() {
						if e := recover(); e != nil {
							innerRes.Verdict, innerRes.Msg = verifClassify(e)
						}
					}()
					ParserInit()
					v := Parser(other)
					innerRes.Verdict = "accept"
					if v == nil {
						innerRes.Verdict = "nilresult"
					}
					innerRes.Value = verifStartVal(v)
				}()
				PopContex()
				atomic.StoreInt32(&verifConcurrent, 0)
				verifNested = hook
				verifLog, verifFetchLog, verifFetched = sl, sf, sn
			}
			r := verifParseOnce(k, req.Cases[k])
			verifNested = nil
			r.Msg = r.Msg + "|at=" + strconv.Itoa(at)
			if at == 0 {
				out[k] = r
			}
			if r.Verdict != base[k].Verdict || r.Value != base[k].Value || fmt.Sprint(r.Log) != fmt.Sprint(base[k].Log) {
				out[k] = r
				out[k].Verdict = "DIFFERS-WHEN-NESTED:" + r.Verdict
				break
			}
			if fired {
				if innerRes.Log == nil {
					innerRes.Log = []int{}
				}
				innerRes.Msg = strconv.Itoa(ok) + "|" + innerRes.Msg
				inner = append(inner, innerRes)
			}
		}
	}
	resp.Results = append(resp.Results, out, inner)
	resp.Notes = append(resp.Notes, "nested:2")
}
`

// context-object parsers (-o)
const goDriverObject = `
func verifParseCtx(c *Context, k int, in string, record bool) (res VerifResult) {
	if record {
		verifBegin(k)
	}
	defer func() {
		if e := recover(); e != nil {
			res.Verdict, res.Msg = verifClassify(e)
		}
		if record {
			res.Log, res.Fetch, res.Fetched = verifLog, verifFetchLog, verifFetched
		if verifWatchCell && verifDirty {
			res.Verdict = "first-value-cell-not-fresh:" + res.Verdict
		}
			verifEnd(k)
		}
		if res.Log == nil {
			res.Log = []int{}
		}
	}()
	v := c.Parser(in)
	res.Verdict = "accept"
	if v == nil {
		res.Verdict = "nilresult"
	}
	res.Value = verifStartVal(v)
	return res
}

func verifModes(req *VerifRequest, resp *VerifResponse) {
	if req.Mode == "c15" {
		// all legs in one process: fresh contexts, reused context, nested parses, concurrent contexts
		for _, m := range []string{"fresh", "reuse", "nested", "concurrent"} {
			r2 := *req
			r2.Mode = m
			if m == "concurrent" {
				// only inputs that terminate sequentially are run concurrently (no step limit there)
				var cs []string
				var orig []int
				for k, c := range req.Cases {
					if resp.Results[0][k].Verdict != "steplimit" {
						cs = append(cs, c)
						orig = append(orig, k)
					}
				}
				r2.Cases = cs
				r2.Orig = orig
				if len(cs) == 0 {
					resp.Notes = append(resp.Notes, "concurrent:0")
					continue
				}
			}
			before := len(resp.Results)
			verifModes(&r2, resp)
			resp.Notes = append(resp.Notes, m+":"+strconv.Itoa(len(resp.Results)-before))
		}
		return
	}
	orders := req.Orders
	if len(orders) == 0 {
		o := make([]int, len(req.Cases))
		for i := range o {
			o[i] = i
		}
		orders = [][]int{o}
	}
	switch req.Mode {
	case "", "fresh", "c17":
		for _, ord := range orders {
			out := make([]VerifResult, len(req.Cases))
			for _, k := range ord {
				out[k] = verifParseCtx(MakeParserContext(), k, req.Cases[k], true)
			}
			resp.Results = append(resp.Results, out)
		}
		if req.Mode == "c17" {
			verifTraceNest(req, resp, func(k int, in string) VerifResult {
				return verifParseCtx(MakeParserContext(), k, in, true)
			}, func(in string) {
				MakeParserContext().Parser(in)
			})
		}
	case "reuse":
		for _, ord := range orders {
			c := MakeParserContext()
			out := make([]VerifResult, len(req.Cases))
			for _, k := range ord {
				c.ParserInit()
				out[k] = verifParseCtx(c, k, req.Cases[k], true)
			}
			resp.Results = append(resp.Results, out)
		}
	case "nested":
		// parse k on context A; at every token index of it, a complete parse of case (k+1) runs on context B inside GetToken
		out := make([]VerifResult, len(req.Cases))
		inner := make([]VerifResult, 0)
		for k := range req.Cases {
			ats := []int{}
			for at := 0; at <= len(req.Cases[k]); at++ {
				ats = append(ats, at)
			}
			for ai := 0; ai < len(ats); ai++ {
				at := ats[ai]
				// the inner parse runs without step limit: take the next case that terminates when run alone
				ok := (k + 1) % len(req.Cases)
				if len(resp.Results) > 0 && len(resp.Results[0]) == len(req.Cases) {
					ok = -1
					for d := 1; d <= len(req.Cases); d++ {
						if c := (k + d) % len(req.Cases); resp.Results[0][c].Verdict != "steplimit" {
							ok = c
							break
						}
					}
					if ok < 0 {
						break
					}
				}
				other := req.Cases[ok]
				var innerRes VerifResult
				fired := false
				verifNested = func(pos int) {
					if pos != at || fired {
						return
					}
					fired = true
					// save the outer recording, run the inner parse without recording
					sl, sf, sn := verifLog, verifFetchLog, verifFetched
					hook := verifNested
					verifNested = nil
					atomic.StoreInt32(&verifConcurrent, 1)
					innerRes = verifParseCtx(MakeParserContext(), -1, other, false)
					atomic.StoreInt32(&verifConcurrent, 0)
					verifNested = hook
					verifLog, verifFetchLog, verifFetched = sl, sf, sn
				}
				r := verifParseCtx(MakeParserContext(), k, req.Cases[k], true)
				verifNested = nil
				r.Msg = r.Msg + "|at=" + strconv.Itoa(at)
				if at == 0 {
					out[k] = r
					// then inside the action of each of the first reductions (at = -1, -2, ...)
					for j := 1; j <= len(r.Log) && j <= 12; j++ {
						ats = append(ats, -j)
					}
				} else if r.Verdict != out[k].Verdict || r.Value != out[k].Value || fmt.Sprint(r.Log) != fmt.Sprint(out[k].Log) {
					out[k] = r
					out[k].Verdict = "DIFFERS-WHEN-NESTED:" + r.Verdict
					break
				}
				if fired {
					innerRes.Msg = strconv.Itoa(ok) + "|" + innerRes.Msg
					inner = append(inner, innerRes)
				}
			}
		}
		resp.Results = append(resp.Results, out, inner)
	case "concurrent":
		// Workers goroutines, each with its own contexts, parse all cases Rounds times with yields injected
		atomic.StoreInt32(&verifConcurrent, 1)
		atomic.StoreInt32(&verifYield, 1)
		var wg sync.WaitGroup
		all := make([][]VerifResult, req.Workers)
		for w := 0; w < req.Workers; w++ {
			wg.Add(1)
			go func(w int) {
				defer wg.Done()
				c := MakeParserContext()
				out := make([]VerifResult, 0, len(req.Cases)*req.Rounds)
				for r := 0; r < req.Rounds; r++ {
					for k := range req.Cases {
						kk := (k + w + r) % len(req.Cases)
						if (w+r)%2 == 0 {
							c = MakeParserContext()
						} else {
							c.ParserInit()
						}
						res := verifParseCtx(c, kk, req.Cases[kk], false)
						res.Fetched = kk // the case number, for the comparison with the sequential result
						if len(req.Orig) == len(req.Cases) {
							res.Fetched = req.Orig[kk]
						}
						res.Msg = req.Cases[kk] + "|" + res.Msg
						out = append(out, res)
					}
				}
				all[w] = out
			}(w)
		}
		wg.Wait()
		atomic.StoreInt32(&verifConcurrent, 0)
		atomic.StoreInt32(&verifYield, 0)
		resp.Results = append(resp.Results, all...)
	}
}
`
