// Package pipe drives the generated-parser pipeline: real CLI -> generated
// source -> one go build per batch (or node per file) -> child process per
// package -> recorded results.
package pipe

import (
	"bytes"
	"encoding/json"
	"fmt"
	"os"
	"os/exec"
	"path/filepath"
	"regexp"
	"sort"
	"strings"
	"sync"
	"syscall"
	"time"

	"verif/harness/render"
	"verif/harness/spec"
)

type Variant string

const (
	VGo   Variant = "go"
	VGoU  Variant = "go-u"
	VGoO  Variant = "go-o"
	VGoOU Variant = "go-o-u"
	VTS   Variant = "ts"
)

var AllVariants = []Variant{VGo, VGoU, VGoO, VGoOU, VTS}
var GoVariants = []Variant{VGo, VGoU, VGoO, VGoOU}

func (v Variant) IsObject() bool { return v == VGoO || v == VGoOU }
func (v Variant) IsTS() bool     { return v == VTS }
func (v Variant) CLIArgs() []string {
	switch v {
	case VGo:
		return []string{"go"}
	case VGoU:
		return []string{"go", "-u"}
	case VGoO:
		return []string{"go", "-o"}
	case VGoOU:
		return []string{"go", "-o", "-u"}
	}
	return []string{"typescript"}
}
func (v Variant) ident() string { return strings.ReplaceAll(string(v), "-", "") }

// Request mirrors the drivers' request.
type Request struct {
	Mode      string   `json:"mode"`
	Cases     []string `json:"cases"`
	StepLimit int      `json:"step_limit"`
	Trace     bool     `json:"trace"`
	Probe     []int    `json:"probe"`
	Orders    [][]int  `json:"orders"`
	Workers   int      `json:"workers"`
	Rounds    int      `json:"rounds"`
}

type Result struct {
	Verdict string `json:"verdict"`
	Msg     string `json:"msg,omitempty"`
	Log     []int  `json:"log"`
	Fetch   []int  `json:"fetch"`
	Fetched int    `json:"fetched"`
	Value   string `json:"value"`
}

type Table struct {
	NStates    int            `json:"nstates"`
	Names      []string       `json:"names"`
	Rows       [][]int        `json:"rows"`
	Translate  map[string]int `json:"translate"`
	Err        string         `json:"err,omitempty"`
	ErrorCode  int            `json:"error_code"`
	AcceptCode int            `json:"accept_code"`
}

type Response struct {
	Results [][]Result `json:"results"`
	Table   *Table     `json:"table,omitempty"`
	Notes   []string   `json:"notes,omitempty"`
}

// Job is one grammar with the variants to generate and the requests to run.
type Job struct {
	ID       int
	G        *spec.Grammar
	Variants []Variant
	Req      Request
	// ReqFor overrides Req per variant (e.g. mode "reuse" only for -o)
	ReqFor map[Variant]*Request
	// Layout rng seed (0 = canonical)
	LayoutSeed int64
	// ActionOf overrides action text (C16 name stress keeps standard actions)
	Text map[Variant]string // filled by Run: the rendered grammar text
}

// Out is everything observed about one (job, variant).
type Out struct {
	GenExit   int
	GenOut    string
	GenOK     bool
	Source    string // generated file text
	BuildErr  string // compiler diagnostics attributed to this package ("" = built)
	InGenCode bool   // the diagnostics point into the generated file
	RunErr    string // child died / timed out / bad response
	Resp      *Response
	Stdout    string // child's stdout (trace)
	RaceLog   string
	Skipped   string // reason (e.g. no node)
}

type Config struct {
	Scratch string
	Yaccgo  string
	Node    string // "" = TypeScript legs skipped
	Race    bool
	Par     int
	KeepSrc bool
}

var unionGo = "\n\ts string\n\tt string\n\tn int\n\tm int\n\tst string\n\tnm int\n"
var unionTS = "\n\ts :string;\n\tt :string;\n\tn :number;\n\tm :number;\n\tst :string;\n\tnm :number;\n"

func pkgName(id int, v Variant) string { return fmt.Sprintf("p%d%s", id, v.ident()) }

// Parts returns the verbatim blocks used for a variant.
func Parts(g *spec.Grammar, id int, v Variant) render.Parts {
	p2go, p2ts := "", ""
	if id%2 == 1 {
		// a second prologue block, as in grammars that keep imports and helper declarations apart
		p2go, p2ts = "var verifPrologue2 = 2", "let verifPrologue2 = 2;"
	}
	if v.IsTS() {
		return render.Parts{Prologue: "\"use strict\";", Prologue2: p2ts, Union: unionTS, Epilogue: fill(tsDriver, g, id, v)}
	}
	return render.Parts{
		Prologue2: p2go,
		Prologue:  "package " + pkgName(id, v) + "\nimport \"fmt\"",
		Union:     unionGo,
		Epilogue:  "\nfunc GetToken(input string, val *ValType, pos *int) int {\n\treturn verifGetToken(input, val, pos)\n}\n",
	}
}

// BadCode returns a token code the grammar does not use.
func BadCode(g *spec.Grammar) int {
	m := 1000
	for _, t := range g.Tokens {
		if t.Num >= m {
			m = t.Num + 1
		}
	}
	return m + 5000 + len(g.Tokens) + len(g.NTs)
}

func fill(tmpl string, g *spec.Grammar, id int, v Variant) string {
	var codes []string
	var setval strings.Builder
	var tagged []string
	for k, t := range g.Tokens {
		if t.Name != "" {
			codes = append(codes, t.Name)
		} else {
			codes = append(codes, fmt.Sprint(t.Lit))
		}
		tagged = append(tagged, fmt.Sprint(t.Tag != ""))
		if t.Tag != "" {
			src := "sv"
			if spec.TagIsInt(t.Tag) {
				src = "nv"
			}
			if v.IsTS() {
				fmt.Fprintf(&setval, "\tcase %d: model.ValType.%s = %s; break;\n", k, t.Tag, src)
			} else {
				fmt.Fprintf(&setval, "\tcase %d:\n\t\tval.%s = %s\n", k, t.Tag, src)
			}
		}
	}
	stag := g.NTs[g.Start].Tag
	startval := "\"\""
	switch {
	case stag == "":
	case spec.TagIsInt(stag) && v.IsTS():
		startval = "String(v." + stag + ")"
	case spec.TagIsInt(stag):
		startval = "strconv.Itoa(v." + stag + ")"
	case v.IsTS():
		startval = "String(v." + stag + ")"
	default:
		startval = "v." + stag
	}
	s := tmpl
	s = strings.ReplaceAll(s, "@PKG@", pkgName(id, v))
	s = strings.ReplaceAll(s, "@CODES@", strings.Join(codes, ", "))
	s = strings.ReplaceAll(s, "@SETVAL@", setval.String())
	s = strings.ReplaceAll(s, "@TAGGED@", strings.Join(tagged, ", "))
	s = strings.ReplaceAll(s, "@STARTVAL@", startval)
	s = strings.ReplaceAll(s, "@BADCODE@", fmt.Sprint(BadCode(g)))
	eofCode := "-1"
	if a := g.EOFAlias(); a >= 0 {
		// the lexer reports end of input through the generated constant of the alias token
		eofCode = g.Tokens[a].Name
	}
	s = strings.ReplaceAll(s, "@EOFCODE@", eofCode)
	s = strings.ReplaceAll(s, "@NNT@", fmt.Sprint(len(g.NTs)))
	return s
}

func goDriverFor(g *spec.Grammar, id int, v Variant) string {
	t := goDriverCommon
	if v.IsObject() {
		t += goDriverObject
	} else {
		t += goDriverGlobal
	}
	return fill(t, g, id, v)
}

type unit struct {
	job *Job
	v   Variant
	out *Out
	dir string
}

func parallel(n, par int, f func(i int)) {
	var wg sync.WaitGroup
	ch := make(chan int)
	for w := 0; w < par; w++ {
		wg.Add(1)
		go func() {
			defer wg.Done()
			for i := range ch {
				f(i)
			}
		}()
	}
	for i := 0; i < n; i++ {
		ch <- i
	}
	close(ch)
	wg.Wait()
}

func runCmd(dir string, wall time.Duration, env []string, stdoutTo string, name string, args ...string) (exit int, out string, timedOut bool) {
	cmd := exec.Command(name, args...)
	cmd.Dir = dir
	cmd.Env = append(os.Environ(), env...)
	var buf bytes.Buffer
	cmd.Stderr = &buf
	if stdoutTo != "" {
		f, err := os.Create(stdoutTo)
		if err != nil {
			return -1, err.Error(), false
		}
		defer f.Close()
		cmd.Stdout = f
	} else {
		cmd.Stdout = &buf
	}
	if err := cmd.Start(); err != nil {
		return -1, err.Error(), false
	}
	done := make(chan error, 1)
	go func() { done <- cmd.Wait() }()
	select {
	case <-done:
	case <-time.After(wall):
		timedOut = true
		cmd.Process.Signal(syscall.SIGQUIT)
		select {
		case <-done:
		case <-time.After(3 * time.Second):
			cmd.Process.Kill()
			<-done
		}
	}
	exit = -1
	if cmd.ProcessState != nil {
		if ws, ok := cmd.ProcessState.Sys().(syscall.WaitStatus); ok {
			if ws.Signaled() {
				exit = 128 + int(ws.Signal())
			} else {
				exit = ws.ExitStatus()
			}
		}
	}
	return exit, buf.String(), timedOut
}

var buildErrRe = regexp.MustCompile(`(?m)^(?:\./)?(p\d+[a-z]+)/(parser|driver)\.go:(\d+):(\d+:)? (.*)$`)

// Run executes the pipeline for all jobs.
func Run(cfg Config, jobs []*Job) map[int]map[Variant]*Out {
	if cfg.Par == 0 {
		cfg.Par = 16
	}
	res := map[int]map[Variant]*Out{}
	var units []*unit
	mod := filepath.Join(cfg.Scratch, "mod")
	os.MkdirAll(mod, 0755)
	for _, j := range jobs {
		res[j.ID] = map[Variant]*Out{}
		j.Text = map[Variant]string{}
		for _, v := range j.Variants {
			o := &Out{}
			res[j.ID][v] = o
			if v.IsTS() && cfg.Node == "" {
				o.Skipped = "no node >= 22"
				continue
			}
			units = append(units, &unit{job: j, v: v, out: o, dir: filepath.Join(mod, pkgName(j.ID, v))})
		}
	}
	// 1. render + real CLI
	parallel(len(units), cfg.Par, func(i int) {
		u := units[i]
		os.MkdirAll(u.dir, 0755)
		var ro render.Options
		if u.job.LayoutSeed != 0 {
			ro.Rng = newRand(u.job.LayoutSeed)
		}
		text := render.Render(u.job.G, Parts(u.job.G, u.job.ID, u.v), ro)
		u.job.setText(u.v, text)
		in := filepath.Join(u.dir, "g.y")
		os.WriteFile(in, []byte(text), 0644)
		outFile := "parser.go"
		if u.v.IsTS() {
			outFile = "parser.ts"
		}
		args := append([]string{"generate"}, u.v.CLIArgs()...)
		args = append(args, "g.y", outFile)
		// budget: 600 CPU-seconds (the largest grammars of the campaigns take 20-40); the wall-clock watchdog
		// only ends a run that is blocked without using CPU and must not fire because the machine is busy
		exit, out, to := runCmd(u.dir, 30*time.Minute, nil, "", "bash", append([]string{"-c", "ulimit -t 600; exec \"$0\" \"$@\"", cfg.Yaccgo}, args...)...)
		u.out.GenExit, u.out.GenOut = exit, out
		b, err := os.ReadFile(filepath.Join(u.dir, outFile))
		u.out.GenOK = exit == 0 && !to && err == nil && !strings.Contains(out, "panic:")
		if u.out.GenOK {
			u.out.Source = string(b)
			if !u.v.IsTS() {
				os.WriteFile(filepath.Join(u.dir, "driver.go"), []byte(goDriverFor(u.job.G, u.job.ID, u.v)), 0644)
			}
		} else {
			os.Remove(filepath.Join(u.dir, outFile))
		}
		os.Remove(in)
	})
	// 2. one go build for all Go packages (dropping packages that do not compile)
	var goUnits []*unit
	for _, u := range units {
		if !u.v.IsTS() && u.out.GenOK {
			goUnits = append(goUnits, u)
		} else if !u.v.IsTS() {
			os.RemoveAll(u.dir)
		}
	}
	os.WriteFile(filepath.Join(mod, "go.mod"), []byte("module verifgen\n\ngo 1.18\n"), 0644)
	prog := filepath.Join(mod, "prog")
	alive := map[string]*unit{}
	for _, u := range goUnits {
		alive[pkgName(u.job.ID, u.v)] = u
	}
	for round := 0; round < 6 && len(alive) > 0; round++ {
		var names []string
		for n := range alive {
			names = append(names, n)
		}
		sort.Strings(names)
		var mb strings.Builder
		mb.WriteString("package main\n\nimport (\n\t\"os\"\n")
		for _, n := range names {
			fmt.Fprintf(&mb, "\t%s \"verifgen/%s\"\n", n, n)
		}
		mb.WriteString(")\n\nfunc main() {\n\tswitch os.Args[1] {\n")
		for _, n := range names {
			fmt.Fprintf(&mb, "\tcase %q:\n\t\t%s.VerifMain(os.Args[2], os.Args[3])\n", n, n)
		}
		mb.WriteString("\tdefault:\n\t\tos.Exit(64)\n\t}\n}\n")
		os.WriteFile(filepath.Join(mod, "main.go"), []byte(mb.String()), 0644)
		args := []string{"build", "-o", prog}
		if cfg.Race {
			args = append(args, "-race")
		}
		args = append(args, ".")
		env := append([]string{}, goEnv...)
		if gc := batchGoCache(cfg); gc != "" {
			env = append(env, "GOCACHE="+gc)
		}
		exit, out, _ := runCmd(mod, 20*time.Minute, env, "", "go", args...)
		if exit == 0 {
			break
		}
		bad := map[string]bool{}
		for _, m := range buildErrRe.FindAllStringSubmatch(out, -1) {
			u := alive[m[1]]
			if u == nil {
				continue
			}
			bad[m[1]] = true
			if len(u.out.BuildErr) < 2000 {
				u.out.BuildErr += m[0] + "\n"
			}
			if m[2] == "parser" {
				u.out.InGenCode = true
			}
		}
		if len(bad) == 0 {
			// cannot attribute: give up on the whole batch
			for _, u := range alive {
				u.out.BuildErr = "batch build failed: " + trunc(out, 1500)
			}
			alive = map[string]*unit{}
			break
		}
		for n := range bad {
			os.RemoveAll(alive[n].dir)
			delete(alive, n)
		}
	}
	// 3. run
	var runUnits []*unit
	for _, u := range units {
		if u.v.IsTS() {
			if u.out.GenOK {
				runUnits = append(runUnits, u)
			}
		} else if alive[pkgName(u.job.ID, u.v)] != nil {
			runUnits = append(runUnits, u)
		}
	}
	parallel(len(runUnits), cfg.Par, func(i int) {
		u := runUnits[i]
		req := u.job.Req
		if r := u.job.ReqFor[u.v]; r != nil {
			req = *r
		}
		rb, _ := json.Marshal(req)
		reqPath := filepath.Join(u.dir, "req.json")
		respPath := filepath.Join(u.dir, "resp.json")
		stdoutPath := filepath.Join(u.dir, "stdout.txt")
		os.WriteFile(reqPath, rb, 0644)
		var exit int
		var errOut string
		var to bool
		if u.v.IsTS() {
			exit, errOut, to = runCmd(u.dir, 45*time.Minute, nil, stdoutPath, cfg.Node, "--no-warnings", "parser.ts", reqPath, respPath)
		} else {
			env := []string{}
			if cfg.Race {
				env = append(env, "GORACE=halt_on_error=0 log_path="+filepath.Join(u.dir, "race"))
			}
			exit, errOut, to = runCmd(u.dir, 45*time.Minute, env, stdoutPath, prog, pkgName(u.job.ID, u.v), reqPath, respPath)
		}
		if sb, err := os.ReadFile(stdoutPath); err == nil {
			u.out.Stdout = string(sb)
		}
		if cfg.Race {
			files, _ := filepath.Glob(filepath.Join(u.dir, "race.*"))
			for _, f := range files {
				b, _ := os.ReadFile(f)
				u.out.RaceLog += string(b)
			}
		}
		b, err := os.ReadFile(respPath)
		if to {
			u.out.RunErr = "wall-clock watchdog fired: " + trunc(errOut, 1500)
			return
		}
		if err != nil || exit != 0 {
			u.out.RunErr = fmt.Sprintf("exit %d: %s", exit, trunc(errOut, 2500))
			if err != nil {
				return
			}
		}
		var resp Response
		if e := json.Unmarshal(b, &resp); e != nil {
			u.out.RunErr = "bad response: " + e.Error()
			return
		}
		u.out.Resp = &resp
		if !cfg.KeepSrc {
			os.Remove(reqPath)
			os.Remove(respPath)
			os.Remove(stdoutPath)
		}
	})
	return res
}

var textMu sync.Mutex

func (j *Job) setText(v Variant, t string) {
	textMu.Lock()
	j.Text[v] = t
	textMu.Unlock()
}

func trunc(s string, n int) string {
	if len(s) > n {
		return s[:n] + "..."
	}
	return s
}

// Encode turns token indices (-1 = undeclared token) into a driver input string.
func Encode(toks []int) string {
	b := make([]byte, len(toks))
	for i, t := range toks {
		if t < 0 {
			b[i] = '?'
		} else {
			b[i] = byte(64 + t) // '@' + token index: printable ASCII for up to 62 tokens
		}
	}
	return string(b)
}

// SplitTrace splits a child's stdout into per-case trace line lists.
func SplitTrace(stdout string) map[int][]string {
	res := map[int][]string{}
	cur := -1
	for _, ln := range strings.Split(stdout, "\n") {
		var k int
		if n, _ := fmt.Sscanf(ln, "@@BEGIN %d", &k); n == 1 && strings.HasPrefix(ln, "@@BEGIN") {
			cur = k
			res[k] = []string{}
			continue
		}
		if strings.HasPrefix(ln, "@@END") {
			cur = -1
			continue
		}
		if cur >= 0 {
			res[cur] = append(res[cur], ln)
		}
	}
	return res
}
