package pipe

import (
	"fmt"
	"os"
	"os/exec"
	"path/filepath"
	"sync"
	"time"
)

// The packages of generated parsers are built once and never again: in the shared Go build cache they
// would only pile up (some GB per thorough run). Batch builds therefore use a build cache of their own
// inside the scratch directory of the batch, which disappears with it. It starts as a copy of a small
// base cache holding the standard-library packages the drivers import (normal and -race), kept under
// <verif>/.cache/gobase and created on first use (about 15 s, once).

var goCacheMu sync.Mutex
var goCacheDirs = map[string]string{} // scratch directory of a batch -> its GOCACHE

const goCacheStub = `package main

import (
	"encoding/json"
	"fmt"
	"os"
	"runtime"
	"strconv"
	"strings"
	"sync"
	"sync/atomic"
)

var _ = json.Marshal
var _ = strconv.Itoa
var _ = strings.Join
var _ = runtime.Gosched
var _ sync.Mutex
var _ = atomic.AddInt64

func main() { fmt.Println(os.Args) }
`

var goEnv = []string{"GOFLAGS=-mod=mod", "GOPROXY=off", "GOSUMDB=off", "GOTOOLCHAIN=local"}

// batchGoCache returns the GOCACHE directory for batch builds ("" = the default cache, if the private
// one cannot be set up).
func batchGoCache(cfg Config) string {
	goCacheMu.Lock()
	defer goCacheMu.Unlock()
	if d, ok := goCacheDirs[cfg.Scratch]; ok {
		return d
	}
	dir := filepath.Join(cfg.Scratch, "gocache")
	goCacheDirs[cfg.Scratch] = ""
	base := ""
	if root := os.Getenv("VERIF_ROOT"); root != "" {
		base = filepath.Join(root, ".cache", "gobase")
	}
	if base != "" {
		if _, err := os.Stat(filepath.Join(base, "ok")); err != nil {
			makeGoBase(cfg, base)
		}
		if _, err := os.Stat(filepath.Join(base, "ok")); err == nil {
			if exec.Command("cp", "-a", base, dir).Run() == nil {
				goCacheDirs[cfg.Scratch] = dir
				return dir
			}
			os.RemoveAll(dir)
		}
	}
	// no base: an empty private cache (this batch pays for the standard library)
	if os.MkdirAll(dir, 0755) == nil {
		goCacheDirs[cfg.Scratch] = dir
	}
	return goCacheDirs[cfg.Scratch]
}

func makeGoBase(cfg Config, base string) {
	tmp := fmt.Sprintf("%s.tmp-%d-%d", base, os.Getpid(), time.Now().UnixNano())
	stub := filepath.Join(cfg.Scratch, "gostub")
	defer os.RemoveAll(stub)
	defer os.RemoveAll(tmp)
	if os.MkdirAll(stub, 0755) != nil || os.MkdirAll(tmp, 0755) != nil {
		return
	}
	os.WriteFile(filepath.Join(stub, "main.go"), []byte(goCacheStub), 0644)
	os.WriteFile(filepath.Join(stub, "go.mod"), []byte("module verifstub\n\ngo 1.18\n"), 0644)
	env := append(append([]string{}, goEnv...), "GOCACHE="+tmp)
	for _, args := range [][]string{{"build", "-o", filepath.Join(stub, "stub"), "."}, {"build", "-race", "-o", filepath.Join(stub, "stub"), "."}} {
		if exit, _, _ := runCmd(stub, 10*time.Minute, env, "", "go", args...); exit != 0 {
			return
		}
	}
	os.WriteFile(filepath.Join(tmp, "ok"), []byte("ok\n"), 0644)
	os.MkdirAll(filepath.Dir(base), 0755)
	// atomic publish; if another check was faster, its copy stays
	os.Rename(tmp, base)
}
