package pipe

import "math/rand"

func newRand(seed int64) *rand.Rand { return rand.New(rand.NewSource(seed)) }
