package pipe

// tsDriver is appended (as the epilogue) to each generated TypeScript parser.
const tsDriver = `
// ---- verification driver (epilogue)
const verifCodes :number[] = [@CODES@];
const verifTagged :boolean[] = [@TAGGED@];
const verifBadCode = @BADCODE@;
const verifBadCodes :number[] = (() => {
	const decl = new Set<number>([@EOFCODE@, -1]);
	let max = 0;
	for (const c of verifCodes) { decl.add(c); if (c > max) { max = c; } }
	const out :number[] = [verifBadCode];
	for (let c = max + 1; c <= max+@NNT@+4; c++) { out.push(c); }
	let n = 0;
	for (let c = 0; c < 400 && n < 3; c++) {
		if (!decl.has(c)) { out.push(c); n++; }
	}
	return out;
})();
let verifLog :number[] = [];
let verifFetchLog :number[] = [];
let verifFetched = 0;
let verifStepLimit = 1 << 30;
let verifErrs :string[] = [];
function verifR(k :number) {
	verifLog.push(k);
	verifFetchLog.push(verifFetched);
	if (verifLog.length > verifStepLimit) {
		throw new Error("VERIF-STEP-LIMIT");
	}
}
function verifI(n :number) :string { return String(n); }
function verifL(s :string) :number {
	let h = 0;
	for (let i = 0; i < s.length; i++) {
		h = (h*31 + s.charCodeAt(i)) % 10007;
	}
	return h;
}
function GetToken(input :string, model:{ValType :ValType, pos :number}) :number {
	verifFetched++;
	if (model.pos >= input.length) {
		model.pos++;
		return @EOFCODE@;
	}
	const c = input.charCodeAt(model.pos);
	const p = model.pos;
	model.pos++;
	if (c == 63) {
		return verifBadCodes[(p*31+input.length*7)%verifBadCodes.length];
	}
	const k = c - 64;
	if (!verifTagged[k] && p % 2 == 1) {
		// a token without value: this lexer allocates nothing for every second such token, so the
		// token is shifted with a reference to the value object of the previous token
		return verifCodes[k];
	}
	model.ValType = new ValType();
	model.ValType.s = "!"; model.ValType.t = "!"; model.ValType.n = -9999; model.ValType.m = -9999; model.ValType.st = "!"; model.ValType.nm = -9999;
	const sv = String.fromCharCode(97 + k % 26) + "@" + p;
	const nv = (7*p + k + 1) % 10007;
	switch (k) {
@SETVAL@
	}
	return verifCodes[k];
}
function verifStartVal(v :any) :string {
	if (v === null || v === undefined) { return "<nil>"; }
	return @STARTVAL@;
}
function verifParseOnce(k :number, input :string) :any {
	verifLog = []; verifFetchLog = []; verifFetched = 0; verifErrs = [];
	const res :any = {verdict: "", msg: "", log: [], fetch: [], fetched: 0, value: ""};
	try {
		initialize();
		const v = Parser(input);
		if (v === null) {
			if (verifErrs.length > 0) {
				res.verdict = "error";
				res.msg = verifErrs.join("|");
			} else {
				res.verdict = "nilresult";
			}
		} else if (verifErrs.length > 0) {
			res.verdict = "accept-with-error-log";
			res.msg = verifErrs.join("|");
			res.value = verifStartVal(v);
		} else {
			res.verdict = "accept";
			res.value = verifStartVal(v);
		}
	} catch (e :any) {
		const msg = String(e && e.message !== undefined ? e.message : e);
		if (msg == "VERIF-STEP-LIMIT") {
			res.verdict = "steplimit";
		} else {
			res.verdict = "crash";
			res.msg = (e && e.name ? e.name + ": " : "") + msg;
		}
	}
	res.log = verifLog; res.fetch = verifFetchLog; res.fetched = verifFetched;
	return res;
}
function verifMain() {
	const fs = require("fs");
	const req = JSON.parse(fs.readFileSync(process.argv[2], "utf8"));
	if (req.step_limit > 0) { verifStepLimit = req.step_limit; }
	const origErr = console.error;
	console.error = function(...args :any[]) { verifErrs.push(args.map(String).join(" ")); };
	const resp :any = {results: []};
	let orders = req.orders;
	if (!orders || orders.length == 0) {
		orders = [req.cases.map((_ :any, i :number) => i)];
	}
	for (const ord of orders) {
		const out :any[] = new Array(req.cases.length);
		for (const k of ord) {
			out[k] = verifParseOnce(k, req.cases[k]);
		}
		resp.results.push(out);
	}
	if (req.probe) {
		const t :any = {nstates: StateActionArray.length, rows: StateActionArray, translate: {}, error_code: ERROR_ACTION, accept_code: ACCEPT_ACTION};
		for (const c of req.probe) { t.translate[String(c)] = translate(c); }
		resp.table = t;
	}
	console.error = origErr;
	fs.writeFileSync(process.argv[3], JSON.stringify(resp));
}
verifMain();
`
