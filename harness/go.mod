module verif/harness

go 1.18

require github.com/acekingke/yaccgo v0.0.0

require github.com/awalterschulze/gographviz v2.0.3+incompatible

replace github.com/acekingke/yaccgo => /repo
