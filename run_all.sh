#!/bin/bash
# development helper: run every check of a tier, print one status line each
TIER="${1:-quick}"
cd "$(dirname "$0")"
for i in 01 02 03 04 05 06 07 08 09 10 11 12 13 14 15 16 17 18 19; do
  s=$(date +%s)
  ./check.sh C$i $TIER > /tmp/runall-C$i.log 2>&1; e=$?
  echo "C$i exit=$e $(( $(date +%s) - s ))s $(grep -c VIOLATION /tmp/runall-C$i.log) violations; $(grep -m1 'evaluations' /tmp/runall-C$i.log | cut -c1-150)"
done
